#!/bin/bash
# usage: tools/confirm_mutant.sh <id e.g. C04-1>
# Independently confirms a seeded change in a scratch worktree of /repo:
#   patch applies and builds; the demonstration fails with it and passes without it;
#   the repository's own test suite still passes with it.
# Writes /verif/seeded/<id>/{patch.diff,demo files,meta.json,confirm.log}; removes the worktree.
set -u
id=$1
src=/tmp/mut-out/$id
dst=/verif/seeded/$id
wt=/tmp/confirm-$id
export GOFLAGS=-mod=mod GOPROXY=off
# C14 demonstrations are data races: they only fail under the race detector
race=""; case "$id" in C14-*) race="-race";; esac
mkdir -p "$dst"
log=$dst/confirm.log
: > "$log"
git -C /repo worktree remove --force "$wt" >/dev/null 2>&1
git -C /repo worktree add -q --detach "$wt" HEAD || exit 9
cd "$wt"
demos=$(cd "$src" && ls *_test.go 2>/dev/null)
runs=$(cd "$src" && grep -ho 'func Test[A-Za-z0-9_]*' $demos | sed 's/func //' | paste -sd'|')
echo "demo tests: $runs" >> "$log"
res_apply=fail; res_build=fail; res_demo_with=unknown; res_demo_without=unknown; res_suite=unknown
if git apply "$src/patch.diff" 2>>"$log"; then res_apply=ok; fi
if [ $res_apply = ok ] && go build ./... >>"$log" 2>&1; then res_build=ok; fi
if [ $res_build = ok ]; then
  # full suite with the change (no demo present)
  echo "--- suite with change" >> "$log"
  if flock /tmp/kcp-suite.lock go test -vet=off -count=1 -timeout 25m ./... >>"$log" 2>&1; then res_suite=pass; else res_suite=FAIL; fi
  for f in $demos; do cp "$src/$f" .; done
  echo "--- demo with change" >> "$log"
  if go test $race -vet=off -count=1 -timeout 10m -run "^($runs)\$" . >>"$log" 2>&1; then res_demo_with=pass; else res_demo_with=fail; fi
  git checkout -q -- . 
  echo "--- demo without change" >> "$log"
  if go test $race -vet=off -count=1 -timeout 10m -run "^($runs)\$" . >>"$log" 2>&1; then res_demo_without=pass; else res_demo_without=fail; fi
fi
cp "$src/patch.diff" "$dst/"; for f in $demos; do cp "$src/$f" "$dst/"; done
python3 - "$id" "$src" "$dst" "$res_apply" "$res_build" "$res_demo_with" "$res_demo_without" "$res_suite" <<'PY'
import json,sys
id,src,dst,ap,bu,dw,dwo,su=sys.argv[1:]
try: m=json.load(open(src+'/meta.json'))
except Exception as e: m={"meta_error":str(e)}
m["id"]=id
m["confirmed_by_verifier"]={"patch_applies":ap,"builds":bu,"demo_with_change":dw,"demo_without_change":dwo,"repo_suite_with_change":su,
  "how":"tools/confirm_mutant.sh in a scratch worktree of /repo HEAD"}
m["kept"]= (ap=="ok" and bu=="ok" and dw=="fail" and dwo=="pass" and su=="pass")
json.dump(m,open(dst+'/meta.json','w'),indent=1)
print(id, m["confirmed_by_verifier"], "KEPT" if m["kept"] else "NOT KEPT")
PY
cd /; git -C /repo worktree remove --force "$wt"
