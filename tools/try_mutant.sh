#!/bin/bash
# usage: tools/try_mutant.sh <patch.diff> <Cxx> [tier]   -- applies the patch to /repo, runs the check, reverts
set -u
patch=$1; prop=$2; tier=${3:-quick}
cd /repo || exit 9
if ! git diff --quiet; then echo "/repo not clean"; exit 9; fi
git apply "$patch" || { echo "patch does not apply"; exit 9; }
cd /verif
# replays and evidence of a run against a modified /repo are kept out of /verif
export VERIF_REPLAYS=/dev/shm/mutant_replays
cp -a /verif/evidence /dev/shm/evidence.keep.$$
./check "$prop" "$tier" 2>&1 | cut -c1-400 | grep -v "^    " | tail -12
rc=${PIPESTATUS[0]}
git -C /repo checkout -- .
rm -rf /verif/evidence; mv /dev/shm/evidence.keep.$$ /verif/evidence
echo "rc=$rc"
