#!/bin/bash
# usage: tools/try_mutant.sh <patch.diff> <Cxx> [tier]   -- applies the patch to /repo, runs the check, reverts
set -u
patch=$1; prop=$2; tier=${3:-quick}
cd /repo || exit 9
if ! git diff --quiet; then echo "/repo not clean"; exit 9; fi
git apply "$patch" || { echo "patch does not apply"; exit 9; }
cd /verif
mkdir -p replays; ls replays | sort > /dev/shm/replays.before.$$
./check "$prop" "$tier" 2>&1 | cut -c1-400 | grep -v "^    " | tail -12
rc=${PIPESTATUS[0]}
git -C /repo checkout -- .
# remove only the replay files this run created
ls /verif/replays | sort | comm -13 /dev/shm/replays.before.$$ - | while read f; do rm -f "/verif/replays/$f"; done; rm -f /dev/shm/replays.before.$$
git -C /verif checkout -- evidence 2>/dev/null
echo "rc=$rc"
