// lincheck: offline linearizability check (porcupine) of Write/Read histories
// recorded by the C01 concurrent-callers part of the harness. The channel from
// the writers of one session to the readers of its peer must behave as one FIFO
// queue of messages.
//
//	lincheck <history.json>...   prints one JSON verdict per file
package main

import (
	"encoding/json"
	"fmt"
	"os"
	"time"

	"github.com/anishathalye/porcupine"
)

type event struct {
	Client int    `json:"client"`
	Op     string `json:"op"` // "write" | "read"
	ID     int64  `json:"id"` // message id written / read (-1: read returned an error, nothing consumed)
	Call   int64  `json:"call"`
	Return int64  `json:"ret"`
}

type history struct {
	Case   int64   `json:"case"`
	Events []event `json:"events"`
}

type input struct {
	write bool
	id    int64
}

var model = porcupine.Model{
	Init: func() interface{} { return []int64(nil) },
	Step: func(state, in, out interface{}) (bool, interface{}) {
		q := state.([]int64)
		i := in.(input)
		if i.write {
			nq := make([]int64, len(q)+1)
			copy(nq, q)
			nq[len(q)] = i.id
			return true, nq
		}
		got := out.(int64)
		if got < 0 {
			return true, q // failed read: consumed nothing
		}
		if len(q) == 0 || q[0] != got {
			return false, q
		}
		return true, q[1:]
	},
	Equal: func(a, b interface{}) bool {
		x, y := a.([]int64), b.([]int64)
		if len(x) != len(y) {
			return false
		}
		for i := range x {
			if x[i] != y[i] {
				return false
			}
		}
		return true
	},
	DescribeOperation: func(in, out interface{}) string {
		i := in.(input)
		if i.write {
			return fmt.Sprintf("write(%d)", i.id)
		}
		return fmt.Sprintf("read() -> %d", out.(int64))
	},
}

func main() {
	enc := json.NewEncoder(os.Stdout)
	for _, f := range os.Args[1:] {
		var h history
		b, err := os.ReadFile(f)
		if err == nil {
			err = json.Unmarshal(b, &h)
		}
		if err != nil {
			enc.Encode(map[string]interface{}{"file": f, "verdict": "error", "error": err.Error()})
			continue
		}
		ops := make([]porcupine.Operation, 0, len(h.Events))
		for _, e := range h.Events {
			ops = append(ops, porcupine.Operation{ClientId: e.Client, Input: input{e.Op == "write", e.ID}, Call: e.Call, Output: e.ID, Return: e.Return})
		}
		res, _ := porcupine.CheckOperationsVerbose(model, ops, 5*time.Second)
		v := map[porcupine.CheckResult]string{porcupine.Ok: "ok", porcupine.Illegal: "illegal", porcupine.Unknown: "unknown"}[res]
		enc.Encode(map[string]interface{}{"file": f, "case": h.Case, "verdict": v, "operations": len(ops)})
	}
}
