module lincheck

go 1.24.0

require github.com/anishathalye/porcupine v1.3.0
