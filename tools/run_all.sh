#!/bin/bash
# usage: tools/run_all.sh quick|thorough [seed]  -- runs every registered check once, prints one line each
tier=${1:-quick}; seed=${2:-1}
cd /verif
for p in C01 C02 C03 C04 C05 C06 C07 C08 C09 C10 C11 C12 C13 C14 C15 C16 C17 C18 C19 C20; do
  VERIF_SEED=$seed ./check $p $tier 2>&1 | grep "^VIOLATION\|^KNOWN-FINDING\|^$p " | cut -c1-220
done
