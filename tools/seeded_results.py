#!/usr/bin/env python3
"""Records in seeded/<id>/meta.json which check caught the change (results of
tools/try_mutant.sh runs, quick tier seed 1, as listed in DESIGN.md §7)."""
import json, os, glob
V = os.path.dirname(os.path.dirname(os.path.abspath(__file__)))
CAUGHT = {
 "C01-1": ("C01", "C01 message boundary not preserved"), "C01-2": ("C01", "C01 message boundary not preserved (fragment-limit part)"),
 "C02-1": ("C02", "C02 backlog not drained within the bound after the network healed"), "C02-2": ("C02, C03", "backlog not drained / transfer did not resume"),
 "C03-1": ("C03", "C03 transfer did not resume and complete ..."), "C03-2": ("C03", "C03 transfer did not resume and complete ..."),
 "C04-1": ("C04", "C04 new segment admitted after a timeout loss ..."), "C04-2": ("C04", "C04 advertised window larger than the free delivery-queue space"),
 "C05-1": ("C05", "C05 hostile datagram broke a buffering bound of a live session"), "C05-2": ("C05", "C05 panic: slice bounds out of range (exact-size read)"),
 "C06-1": ("C06", "C06 child died: panic slice bounds (short datagram on the portable read loop)"), "C06-2": ("C06", "C06 datagram failing the integrity check changed session state"),
 "C07-1": ("C07", "C07 decoder emitted something that is not an original data packet / not reconstructed"), "C07-2": ("C07, C09", "C07 encoder: malformed group; C09 type vs position"),
 "C09-1": ("C09", "C09 FEC size field is not payload+2"), "C09-2": ("C09, C07", "C09 FEC packet type does not match its sequence id's position"),
 "C10-1": ("C10", "C10 core handed its output callback an empty or over-MTU packet (staging sweep)"), "C10-2": ("C10, C09", "C10 datagram larger than the configured MTU (idle-then-shrink); C09 parity length"),
 "C11-1": ("C11", "C11 a new peer never produced an Accept"), "C11-2": ("C11", "C11 more than one Accept for one peer conversation"),
 "C12-1": ("C12", "C12 shifted run ends differently"), "C12-2": ("C12", "C12 shifted run ends differently"),
 "C13-1": ("C13", "C13 write: ... (SetWindowSize stimulus)"), "C13-2": ("C13", "C13 spurious timeouts"),
 "C14-1": ("C14", "C14 data race: closeSession vs notifyReadError"), "C14-2": ("C14", "C14 data race: KCP.Recv vs UDPSession.Read"),
 "C15-1": ("C15", "C15 pooled buffer recycled twice: decode then discardShards"), "C15-2": ("C15", "C15 library goroutine still alive ... newUDPSession (postProcess)"),
 "C16-1": ("C16", "C16 [after convergence, at the id wrap] not reconstructed"), "C16-2": ("C16", "C16 decoder did not adopt the sender's ratio ..."),
 "C17-1": ("C17", "C17 task never ran (waves pattern)"), "C17-2": ("C17", "C17 task never ran"),
 "C18-1": ("C18, C12", "C18 data segment transmitted more than once on a clean path (clock offsets)"), "C18-2": ("C18", "C18 retransmission timeout outside [minimum, 60s]"),
 "C08-1": ("C08", "C08 <cipher> roundtrip in-place (16-byte block ciphers)"), "C08-2": ("C08", "C08 child/guard: panic on the empty packet"),
 "C20-1": ("C20", "C20 ForEachReverse/...: queue model mismatch"), "C20-2": ("C20", "C20 Discard(2): queue model mismatch (slot retains element)"),
 "C12-1": ("C12", "C12 shifted run ends differently"), "C12-2": ("C12", "C12 shifted run ends differently"),
 "C01-3": ("C01", "C01 reader received bytes that are not the next bytes written (mtu-raise-in-stream part)"), "C01-4": ("C01", "C01 reader received bytes that are not the next bytes written; history not linearizable"),
 "C02-3": ("C02", "C02 sender's backlog did not return to zero although everything was delivered (session tails)"), "C02-4": ("C02", "C02 backlog not drained within the bound"),
 "C04-3": ("C04", "C04 delivery queue holds more than one receive window"), "C04-4": ("C04", "C04 more than a send window of segments outstanding"),
 "C06-3": ("C06", "C06 datagrams failing the integrity check made valid datagrams of the same receive batch disappear (real UDP)"), "C06-4": ("C06", "C06 ... moved other counters"),
 "C07-3": ("C07", "C07 missing data packet not reconstructed ..."), "C07-4": ("C07", "C07 decoder emitted something that is not an original data packet"),
 "C09-3": ("C09", "C09 CRC32 / AEAD tag of an emitted datagram does not verify"), "C09-4": ("C09", "C09 CRC32 does not cover ...; stream reassembled from the wire is shorter"),
 "C11-3": ("C11", "C11 a segment with a different conversation id inside a datagram from the same address was merged"), "C11-4": ("C11", "C11 a new peer never produced an Accept"),
 "C13-3": ("C13", "C13 read: wrong number of callers woke on a socket read error (listener closed first)"), "C13-4": ("C13", "C13 ...: first deadline set while blocked"),
 "C15-3": ("C15", "C15 session references a pooled buffer after it was recycled"), "C15-4": ("C15", "C15 scheduled callback still pending / goroutine alive (backlog overflow shutdown)"),
 "C19-1": ("C19", "C19 out-of-band message delivered to another session"), "C19-2": ("C19", "C19 session without FEC accepted SendOOB"),
 "C03-3": ("C03", "C03 transfer did not resume and complete after the reader resumed"), "C03-4": ("C03", "C03 transfer did not resume and complete after the reader resumed"),
 "C05-3": ("C05", "C05 child died: panic: slice bounds out of range [2:0] / [2:1]"), "C05-4": ("C05", "C05 child died: panic: index out of range [3] with length N"),
 "C10-3": ("C10", "C10 child died: panic slice bounds [:N] with capacity N / AEAD Seal allocated new slice"), "C10-4": ("C10", "C10 core packet larger than the MTU after SetMtu shrank it; panic in flush"),
 "C08-3": ("C08", "C08 salsa20 encrypt/decrypt vs reference, separate buffers"), "C08-4": ("C08", "C08 child died: data race reported by the race detector (shared SM4 instance)"),
 "C12-3": ("C12", "C12 FEC encoder: malformed group near the id wrap (skipped parity)"), "C12-4": ("C12", "C12 shifted run ends differently / normalised traces differ"),
 "C14-3": ("C14", "C14 data race: rngAES.Read / rngChacha8.Read vs reseed (forced reseeds)"), "C14-4": ("C14", "C14 data race: encrypt8 / encrypt16 between sessions of one listener"),
 "C16-3": ("C16", "C16 decoder did not adopt the sender's ratio within 258+2(d+p) (d+p = 255)"), "C16-4": ("C16", "C16 session decoder did not adopt the peer's ratio; stream not delivered intact"),
 "C17-3": ("C17", "C17 task never ran (far-future deadline beyond UnixNano's range)"),
 "C18-3": ("C18", "C18 retransmission timeout outside [minimum, 60s]; data segment transmitted more than once (nodelay=-1 retune)"), "C18-4": ("C18", "C18 retransmission counters moved on a clean path"),
 "C19-3": ("C19", "C19 [C15 pooled buffer recycled twice for one acquisition: SendOOB then SendOOB]"), "C19-4": ("C19", "C19 oversize out-of-band payload accepted"),
 "C20-3": ("C20", "C20 Pop: queue model mismatch (slot retains element)"), "C20-4": ("C20", "C20 ForEachReverse: queue model mismatch"),
}
CAUGHT.update({
 "C01-5": ("C01, C15", "C01 [C15 pooled buffer recycled twice for one acquisition: UDPSession.postProcess ...]"), "C01-6": ("C01", "C01 message boundary not preserved; history not linearizable"),
 "C02-5": ("C02, C13", "C02 transfer did not complete within the virtual-time limit"), "C02-6": ("C02", "C02 sender's backlog did not return to zero although everything was delivered"),
 "C04-5": ("C04, C05", "C04 delivery queue holds more than one receive window"), "C04-6": ("C04", "C04 new segment admitted beyond min(send window, peer window, ...)"),
 "C05-5": ("C05", "C05 child died: panic: invalid memory address or nil pointer dereference"), "C05-6": ("C05, C04", "C05 hostile input broke a buffering bound of the core"),
 "C09-5": ("C09", "C09 two identical datagrams emitted under a cipher; FEC sequence id repeated; nonce repeated (batch-write-error part)"), "C09-6": ("C09", "C09 nonce repeated (concurrent callers part)"),
 "C11-5": ("C11", "C11 a session sharing the socket stalled (real-time throttled-neighbour part)"), "C11-6": ("C11", "C11 dialled session accepted a datagram that did not come from its peer's address"),
 "C13-5": ("C13", "C13 read: wrong number of callers woke on data arrival; readable data left unclaimed"), "C13-6": ("C13, C02", "C13 read: wrong number of callers woke on data arrival (through FEC recovery)"),
 "C15-5": ("C15", "C15 library goroutine still alive / scheduled callback still pending (part 1c)"), "C15-6": ("C15, C01", "C15 pooled buffer recycled twice for one acquisition"),
})
CAUGHT.update({
 "C03-5": ("C03", "C03 transfer did not resume and complete after the reader resumed"), "C03-6": ("C03", "C03 transfer did not resume and complete after the reader resumed"),
 "C06-5": ("C06", "C06 integrity failure not counted as exactly one checksum error; state changed"), "C06-6": ("C06", "C06 datagram failing the integrity check changed session state"),
 "C07-5": ("C07, C13", "C07 [session] a packet the decoder could rebuild did not reach the stream"), "C07-6": ("C07", "C07 decoder emitted a shard with an invalid size field / not an original data packet"),
 "C10-5": ("C10", "C10 child died: panic: slice bounds out of range [:1501] with capacity 1500"), "C10-6": ("C10", "C10 core handed its output callback an empty or over-MTU packet (stale-ACK patterns)"),
 "C14-5": ("C14", "C14 data race: decrypt16 vs encrypt16 (SM4)"), "C14-6": ("C14", "C14 data race: KCP.SetMtu vs UDPSession.SendOOB"),
 "C16-5": ("C16", "C16 [after convergence] missing data packet not reconstructed"), "C16-6": ("C16", "C16 session decoder did not adopt the peer's ratio"),
 "C18-5": ("C18", "C18 retransmission counters moved on a clean path (partial batch writes through hook H5)"), "C18-6": ("C18", "C18 retransmission counters moved on a clean path (getter pollers)"),
 "C19-5": ("C19", "C19 child died: panic: index out of range / slice bounds (truncated OOB frame)"), "C19-6": ("C19", "C19 a library lock was never released: goroutines wait for it for ever (lock watch)"),
})
CAUGHT.update({
 "C02-7": ("C02, C12", "C02 backlog not drained within the bound (scenarios at the sequence-number wrap)"), "C02-8": ("C02", "C02 backlog not drained within the bound after the network healed"),
 "C04-7": ("C04", "C04 sender's view of the peer's window is not the window the peer advertised last"), "C04-8": ("C04", "C04 window in force is not the configured one"),
 "C05-7": ("C05", "C05 hostile datagram broke a buffering bound of a live session (FEC shard sets)"), "C05-8": ("C05", "C05 hostile datagrams created more sessions than peers plus the accept backlog"),
 "C09-7": ("C09, C14", "C09 child died: data race reported by the race detector (shared-listener-cipher part)"), "C09-8": ("C09", "C09 parity is not the Reed-Solomon code of the group's zero-padded size-prefixed payloads"),
 "C10-7": ("C10", "C10 core handed its output callback an empty or over-MTU packet"), "C10-8": ("C10", "C10 datagram larger than the configured MTU"),
 "C11-7": ("C11", "C11 a new peer never produced an Accept (polling accept loop)"), "C11-8": ("C11", "C11 a new peer never produced an Accept (library clock beyond 65 536 ms)"),
 "C13-7": ("C13", "C13 accept: caller returned although nothing it waits for happened"), "C13-8": ("C13", "C13 write: callers not woken by a socket write error"),
 "C15-7": ("C15", "C15 library goroutine still alive 10 virtual minutes after everything was closed"), "C15-8": ("C15", "C15 pooled buffer recycled twice for one acquisition (SendOOB on a closed session)"),
})
NOTE = {
 "C17-4": "not kept: on the tree before fix 3121c8c this change could not be told apart from the unchanged scheduler's own lateness (S19, found by the busy-worker part written for it); with S19 repaired the change no longer alters behaviour and its demonstration passes",
}
CAUGHT.update(json.load(open(os.path.join(V, "tools", "seeded_extra.json"))) if os.path.exists(os.path.join(V, "tools", "seeded_extra.json")) else {})
for d in sorted(glob.glob(os.path.join(V, "seeded", "*"))):
    mid = os.path.basename(d)
    mp = os.path.join(d, "meta.json")
    if not os.path.exists(mp):
        print(mid, "no meta"); continue
    m = json.load(open(mp))
    if mid in CAUGHT:
        m["caught_by_check"], m["violation_key_seen"] = CAUGHT[mid]
        m["how_checked"] = "tools/try_mutant.sh seeded/%s/patch.diff <check> (git -C /repo apply; ./check <check> quick; git -C /repo checkout -- .)" % mid
    if mid in NOTE:
        m["note"] = NOTE[mid]
    if os.path.exists(os.path.join(d, "patch.orig.diff")):
        m["ported"] = "patch.diff was re-based on /repo after fix: commits touched the same lines; patch.orig.diff is the sub-agent's original"
    json.dump(m, open(mp, "w"), indent=1)
    print(mid, m.get("kept"), m.get("caught_by_check"))
