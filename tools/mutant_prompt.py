#!/usr/bin/env python3
"""Print the sub-agent prompt for seeding a property-breaking change (only the
property text and a scratch worktree are given to the agent)."""
import json, sys
pid = sys.argv[1]
n = int(sys.argv[2]) if len(sys.argv) > 2 else 2
for l in open('/verif/properties.jsonl'):
    p = json.loads(l)
    if p['id'] == pid:
        break
else:
    sys.exit('no such property')
ROUND2 = ""
if len(sys.argv) > 3:
    ROUND2 = "\n\nEARLIER ATTEMPTS (by other people) already cover the following mechanisms - yours must use DIFFERENT code sites and mechanisms:\n" + open(sys.argv[3]).read()
print(f"""You are helping test a verification effort for the Go library xtaci/kcp-go (reliable UDP: KCP ARQ core, Reed-Solomon FEC, per-packet encryption, timed scheduler).

You have your OWN scratch git worktree of the library at /tmp/mut-{pid} . Work ONLY there and in /tmp/mut-out/ . Do not read, list or modify /repo or /verif (your result must be independent of anything there).

PROPERTY {pid} — {p['title']}
Statement: {p['statement']}
Quantifier: {p['quantifier']['text']}

TASK. Produce {n} different change(s) (mutants) to the library's non-test source files that BREAK this property, such that each change:
  1. still compiles (`go build ./...` and `go vet` are not required to be clean, but it must build),
  2. still passes the library's existing test suite unchanged (no edits to *_test.go),
  3. is realistic — the kind of defect a maintainer could plausibly introduce (a refactor slip, an off-by-one, a dropped case, a misplaced unlock, an 'optimisation', two sites that each look fine alone) — not sabotage guarded by magic constants,
  4. needs something SPECIFIC to manifest: a particular interleaving, a fault/loss at a particular point, a multi-step sequence of operations, an unusual input/configuration, or two cooperating sites. It must NOT be exposed at once by ordinary use (ordinary use is what the existing suite does).
Use different mechanisms / code sites for the different mutants.{ROUND2}

For each mutant also write a DEMONSTRATION: a Go test (package kcp, e.g. zz_demo_test.go, placed in the worktree root while you run it) or small program that FAILS with the change applied and PASSES on the unchanged tree, deterministically if at all possible (you may drive internal types directly since the test is in package kcp).

Environment (no network): in every shell call first run
  export GOFLAGS=-mod=mod GOPROXY=off      (do NOT set GOSUMDB=off: it blocks the switch to the cached go1.24.2 toolchain)
`go` works offline inside the worktree. Run single tests with `go test -vet=off -count=1 -run 'TestName' .`
The FULL existing suite takes 4-6 minutes and uses fixed UDP ports, so it must be serialised across agents — run it ONLY like this, and at most twice per mutant:
  flock /tmp/kcp-suite.lock go test -vet=off -count=1 -timeout 25m ./... 2>&1 | tail -15
(remove your demo test file from the worktree before running the full suite, or it will be counted). A suite failure that also happens on the unchanged tree does not count against your mutant, but make sure of that.
The files verif_on.go / verif_off.go and the calls verifYield(..), verifSchedPut(..), verifPoolGet/Put(..), verifFlushAdmitted(..) are inert instrumentation stubs: do not modify them, do not rely on them.

DELIVERABLES, for mutant k = 1..{n}, in directory /tmp/mut-out/{pid}-k/ :
  - patch.diff : `git diff` of the library sources only (no test files), must apply to the worktree's HEAD with `git apply`
  - the demonstration file(s)
  - meta.json : {{"property": "{pid}", "summary": "...what was changed...", "needs_to_manifest": "...what specific condition exposes it...", "demo": "...file and how to run...", "ran": ["...commands you ran and their outcome, including the full-suite result with the mutant applied..."]}}
Before finishing, restore the worktree to a clean HEAD state (`git checkout -- . && git clean -fd`), so that only /tmp/mut-out holds your results. Your final message: a 5-line summary per mutant.""")
