#!/usr/bin/env python3
"""Regenerates /verif/MANIFEST.json from the table below (kept in one place so
the manifest stays valid while checks are added)."""
import json, os, subprocess
V = os.path.dirname(os.path.dirname(os.path.abspath(__file__)))

# id -> (category, technique, level text, level note, design ref)
CHECKS = {
 "C01": ("exploration", "content-oracle monitor (every byte = F(stream, offset)) at every Recv/Read return over seeded hostile network simulations in virtual time, at raw-core and session level; recorded concurrent-caller histories decided by a polynomial FIFO linearizability oracle and cross-checked offline with porcupine",
   "Held on the executions produced: thousands of seeded scenarios of real cores and real sessions over a scripted lossy/duplicating/reordering network with a byte-exact oracle at every read. Reaches fate sequences, configurations and read/write size patterns the suite never samples; not a proof.",
   "testing/synctest virtual time; Go scheduler picks the interleavings inside one virtual instant; trusted: harness content function and network model", "DESIGN.md §3 C01"),
 "C02": ("fault_enumeration", "exhaustive enumeration (by running) of the fates of the first K datagrams + sampled outage profiles, bounded-progress oracle in virtual time",
   "Every assignment of {deliver, drop, duplicate, late} to the first K datagrams x 16 configurations is executed on the real cores, then the network is fair and completion is demanded within a bound derived from the protocol's timers; plus sampled long transfers/outages. Liveness is restated as bounded progress; a wedge exceeds any bound.",
   "bound T is generous, not tight; beyond K and the sampled profiles nothing is claimed", "DESIGN.md §3 C02"),
 "C03": ("exploration", "stalled-reader simulations with targeted loss of WASK/WINS/ACK datagrams; content oracle + window monitors + bounded resumption in virtual time",
   "Held on the executions produced; evidence counts scenarios that really reached the zero-window state and the probes seen on the wire.",
   "finite pause and finite loss period; virtual-time bound as C02", "DESIGN.md §3 C03"),
 "C04": ("exploration", "invariant monitors at hook points (output callback, admission hook H3, after every event) under window-edge and adversarial forged traffic",
   "Invariants are recomputed by the monitor from the core's fields at the only points where the admission decision is observable; traffic includes a forging adversary. Held on what was executed.",
   "monitors read internal fields (in-package harness); window sizes fixed before traffic", "DESIGN.md §3 C04"),
 "C07": ("exploration", "reference-model oracle over exhaustively enumerated arrival orders of small FEC groups (run on the real encoder/decoder) plus sampled large groups and neighbour interleavings",
   "All subsets x orders of every group up to the bound are executed against the real decoder with a byte-exact model; larger groups and interleavings sampled.",
   "klauspost/reedsolomon trusted; recency bound as stated in assumptions", "DESIGN.md §3 C07"),
 "C08": ("exploration", "differential testing against crypto/cipher CFB / x/crypto / stdlib GCM references, exhaustive over length x cipher x aliasing, canary buffers; shared-instance workload under the Go race detector",
   "Every length 0..1500 for every cipher in both aliasing modes is compared with an independent reference (exhaustive in those dimensions, sampled in key/content).",
   "reference implementations trusted", "DESIGN.md §3 C08"),
 "C09": ("exploration", "independent wire decoder (written from README) attached to every datagram handed to the PacketConn; reference decryption, CRC/GCM verification, FEC header rules, Reed-Solomon re-encoding, stream reassembly, nonce/datagram freshness sets; fault injection into the batch transmit path (hook H5: partial batch, then ENOBUFS); uniqueness check over nonces drawn by concurrent callers",
   "Every datagram of every scenario is decoded by an implementation that shares no code with the package's parsers, so symmetric encoder/parser changes are visible; held on the traffic produced (all packet classes observed).",
   "trusted: crypto/*, x/crypto, hash/crc32, reedsolomon; scenarios sampled", "DESIGN.md §3 C09"),
 "C10": ("exploration", "wire-length monitor and core output-callback monitor under any-int SetMtu values before/during traffic; enumerated staging-buffer fill levels; process-survival oracle",
   "Held on the executions produced; the staging sweep enumerates every ACK-count/probe/segment-size combination around the MTU boundary for 15 MTU values.",
   "pipeline drained before a switch so that 'from then on' is well defined", "DESIGN.md §3 C10"),
 "C06": ("exploration", "before/after deep state snapshots and SNMP counter deltas at synctest quiescence around single injected datagrams; corruptions built at plaintext level with reference ciphers",
   "Thousands of injections per quick run over all ciphers, both receive paths and all packet kinds; the no-effect oracle compares the complete reachable state by value, so an effect anywhere (decoder, autotune ring, session table, wake-up tokens, counters) is visible.",
   "snapshot exclusion list; reference ciphers", "DESIGN.md §3 C06"),
 "C11": ("exploration", "multi-peer simulations on one listener socket with per-peer content streams (cross-delivery visible), Accept-multiset oracle over the recorded history, before/after snapshots around injected foreign/stale datagrams (socket-like mixed-length addresses); real-time loopback part with one session's transmit queue kept full behind a rate limit (neighbours must stay responsive; sleep-overshoot monitor for machine stalls)",
   "Held on the multi-peer histories produced (about 2000 accepts and 500 judged injections per quick run).",
   "content streams are keyed per peer; stale first-datagram histories excluded (see assumptions)", "DESIGN.md §3 C11"),
 "C19": ("exploration", "exactly-once-or-absent / no-cross-delivery history oracle over keyed out-of-band payloads (sent book vs handler invocations), with the C01 content oracle, the pool sanitizer and the wire decoder's FEC group check running on the same traffic; late copies of an earlier conversation's out-of-band datagrams injected after a reconnect (Accept count / session table oracle)",
   "Held on ~10^5 out-of-band sends and ~5*10^4 checked deliveries per quick run, across ciphers, FEC ratios, session counts and loss profiles.",
   "payloads shorter than 12 bytes are identified by (session, direction, length) only", "DESIGN.md §3 C19"),
 "C05": ("exploration", "seeded structure-aware hostile-input generation into the raw core, the raw FEC decoder and live sessions (simnet + real UDP) under the race detector/checkptr; process-survival, structural-bound and heap-growth monitors; content oracle on the concurrent legitimate transfer",
   "~1.5*10^6 injections per quick run; a crash is attributed to the last logged case; bounds are asserted after every injection.",
   "generators are seeded and structure-aware, not coverage-guided", "DESIGN.md §3 C05"),
 "C14": ("exploration", "Go race detector over a real-time method-hammer workload (every supported public method of UDPSession and Listener, concurrent with traffic, Close/re-dial churn and listener failure) with yield/sleep injection at hook points; reports deduplicated by entry-point pair",
   "Held on the interleavings produced; evidence lists invocations per method and how many method pairs overlapped in time.",
   "race detector sees only interleavings that occurred", "DESIGN.md §3 C14"),
 "C13": ("exploration", "virtual-time trace monitor: return time and error class of every blocked caller recorded at the API boundary and compared with a reference model of deadline/data/close/error semantics at bubble quiescence after each scripted stimulus",
   "Thousands of scripted interleavings of blocked Read/Write/Accept callers with deadline changes, arrivals, Close and socket errors, judged to the exact virtual millisecond; held on the scripts executed.",
   "synctest virtual time; Go scheduler order inside one instant", "DESIGN.md §3 C13"),
 "C15": ("exploration", "goroutine/callback leak monitor at bubble quiescence after scripted Close orders; shutdown with sessions still waiting in the accept backlog; buffer-pool sanitizer (ownership map, poison, quarantine, reference-ownership check) at hook H2 in every scenario",
   "Held on the Close scripts and buffer acquisitions executed (hundreds of thousands of tracked acquisitions per quick run); a survivor goroutine is reported with its stack, a double recycle with both recycling stacks.",
   "runtime.Stack parsing; hook H2 add-only call-outs in bufferPool.Get/Put", "DESIGN.md §3 C15"),
 "C16": ("exploration", "decoder-state monitor (effective ratio after n packets) over exhaustively enumerated small ratio pairs and starting offsets plus sampled large ones; C07 oracle after convergence; stability soak with hostile arrival patterns; session-level runs",
   "All unequal pairs with d,p<=4 at every starting offset are executed; larger ratios sampled.",
   "uninterrupted-run precondition enforced by the generator / measured on the wire", "DESIGN.md §3 C16"),
 "C17": ("exploration", "real-time stress of the real scheduler under the race detector with injected yields at hand-off points; in-task clock comparisons and per-task execution counters; control-timer-relative promptness verdict; busy-worker rounds with long-running tasks judged against max(deadline, submission, end of the long tasks begun before) + slack with a sleep-overshoot monitor; both asynctimerchan modes",
   "Held on ~10^5 (quick) tasks across deadline patterns and worker counts; never-early and at-most-once are hard verdicts, 'ran' is judged against a control timer so that machine stalls are inconclusive, not violations.",
   "real-time scheduling of the sandbox", "DESIGN.md §3 C17"),
 "C12": ("exploration", "metamorphic trace comparison (base vs shifted sequence numbers / clock) on deterministic single-goroutine simulations; FEC and autotune wrap cases against the C07 oracle",
   "Deterministic replays make the normalised traces comparable byte for byte, so any dependence on absolute sn/clock values inside the explored scenarios is visible.",
   "offsets sampled around 2^31/2^32 and random; scenarios sampled", "DESIGN.md §3 C12"),
 "C18": ("exploration", "wire monitor counting transmissions per sn on generated clean paths satisfying the property's precondition; RTO-bound assertion after every event under forged acknowledgements",
   "Held on the clean-path scenarios generated (precondition enforced by construction) and on every simulation for the RTO bound.",
   "precondition margins >= 2 ms of virtual time", "DESIGN.md §3 C18"),
 "C20": ("exploration",
   "lock-step reference model (slice queue) over bounded-exhaustive and random operation sequences, slot-hygiene assertion on internal layout",
   "Every operation sequence up to the stated depth from a family of initial layouts is executed on the real RingBuffer next to a slice model and compared after every step (bounded-exhaustive), plus long random sequences through all growth regimes; this is the natural level for a small deterministic data structure: any FIFO/hygiene defect reachable within the bound is found, beyond it only sampled.",
   "Go runtime and compiler; harness model (a Go slice); sequences deeper than the bound are only sampled",
   "DESIGN.md §3 C20"),
}
PENDING = {}
props = [json.loads(l) for l in open(os.path.join(V, "properties.jsonl"))]
hooks_commits = subprocess.run(["git", "-C", "/repo", "log", "--format=%H %s", "--grep=^verif:"], capture_output=True, text=True).stdout.strip().splitlines()
m = {
 "version": 1,
 "setup_cmd": "./check setup",
 "hooks": {
  "guard": "verif (Go build tag)",
  "enable": "go1.26 test -c -tags verif [-race] -overlay <harness files as /repo/zzverif_*_test.go> /repo  (done by ./check on every run, from /repo's working tree)",
  "baseline_off_cmd": "cd /repo && GOPROXY=off go test -mod=mod -vet=off -count=1 -timeout 25m ./...",
  "source_commits": [c.split()[0] for c in hooks_commits],
  "add_only": True,
 },
 "engines": [
  {"name": "harness", "path": "harness/", "serves_properties": sorted(CHECKS), "kind_free_text": "package-internal Go test harness (build tag verif) overlaid into /repo: seeded workload generators, reference models, invariant monitors, pool sanitizer, virtual-time simulations in testing/synctest bubbles"},
  {"name": "check", "path": "check", "serves_properties": sorted(CHECKS), "kind_free_text": "driver: builds from /repo's working tree, shards workloads over child processes, merges monitor observations into evidence, applies KNOWN_FINDINGS.json"},
 ],
 "checks": [],
 "notes": "All checks are runtime monitoring: real code under generated workloads with oracles observing executions. See DESIGN.md.",
 "not_applicable": [],
}
for p in props:
    pid = p["id"]
    if pid in CHECKS:
        cat, tech, text, note, ref = CHECKS[pid]
        m["checks"].append({
          "property_id": pid,
          "quick_cmd": "./check %s quick" % pid,
          "thorough_cmd": "./check %s thorough" % pid,
          "evidence_file": "/verif/evidence/%s.json" % pid,
          "replay_cmd_template": "./check %s quick --replay {path}" % pid,
          "engine": "harness",
          "level_claimed": {"category": cat, "text": text, "design_ref": ref},
          "level_note": note,
          "technique": tech,
        })
    else:
        m["not_applicable"].append({"property_id": pid, "reason": PENDING.get(pid, "check under construction in this round (runtime monitor designed in DESIGN.md, not yet registered); not claimed until it runs clean")})
json.dump(m, open(os.path.join(V, "MANIFEST.json"), "w"), indent=1)
print("MANIFEST.json:", len(m["checks"]), "checks,", len(m["not_applicable"]), "not claimed")
