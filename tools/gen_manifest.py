#!/usr/bin/env python3
"""Regenerates /verif/MANIFEST.json from the table below (kept in one place so
the manifest stays valid while checks are added)."""
import json, os, subprocess
V = os.path.dirname(os.path.dirname(os.path.abspath(__file__)))

# id -> (category, technique, level text, level note, design ref)
CHECKS = {
 "C20": ("exploration",
   "lock-step reference model (slice queue) over bounded-exhaustive and random operation sequences, slot-hygiene assertion on internal layout",
   "Every operation sequence up to the stated depth from a family of initial layouts is executed on the real RingBuffer next to a slice model and compared after every step (bounded-exhaustive), plus long random sequences through all growth regimes; this is the natural level for a small deterministic data structure: any FIFO/hygiene defect reachable within the bound is found, beyond it only sampled.",
   "Go runtime and compiler; harness model (a Go slice); sequences deeper than the bound are only sampled",
   "DESIGN.md §3 C20"),
}
PENDING = {}
props = [json.loads(l) for l in open(os.path.join(V, "properties.jsonl"))]
hooks_commits = subprocess.run(["git", "-C", "/repo", "log", "--format=%H %s", "--grep=^verif:"], capture_output=True, text=True).stdout.strip().splitlines()
m = {
 "version": 1,
 "setup_cmd": "./check setup",
 "hooks": {
  "guard": "verif (Go build tag)",
  "enable": "go1.26 test -c -tags verif [-race] -overlay <harness files as /repo/zzverif_*_test.go> /repo  (done by ./check on every run, from /repo's working tree)",
  "baseline_off_cmd": "cd /repo && GOPROXY=off go test -mod=mod -vet=off -count=1 -timeout 25m ./...",
  "source_commits": [c.split()[0] for c in hooks_commits],
  "add_only": True,
 },
 "engines": [
  {"name": "harness", "path": "harness/", "serves_properties": sorted(CHECKS), "kind_free_text": "package-internal Go test harness (build tag verif) overlaid into /repo: seeded workload generators, reference models, invariant monitors, pool sanitizer, virtual-time simulations in testing/synctest bubbles"},
  {"name": "check", "path": "check", "serves_properties": sorted(CHECKS), "kind_free_text": "driver: builds from /repo's working tree, shards workloads over child processes, merges monitor observations into evidence, applies KNOWN_FINDINGS.json"},
 ],
 "checks": [],
 "notes": "All checks are runtime monitoring: real code under generated workloads with oracles observing executions. See DESIGN.md.",
 "not_applicable": [],
}
for p in props:
    pid = p["id"]
    if pid in CHECKS:
        cat, tech, text, note, ref = CHECKS[pid]
        m["checks"].append({
          "property_id": pid,
          "quick_cmd": "./check %s quick" % pid,
          "thorough_cmd": "./check %s thorough" % pid,
          "evidence_file": "/verif/evidence/%s.json" % pid,
          "replay_cmd_template": "./check %s quick --replay {path}" % pid,
          "engine": "harness",
          "level_claimed": {"category": cat, "text": text, "design_ref": ref},
          "level_note": note,
          "technique": tech,
        })
    else:
        m["not_applicable"].append({"property_id": pid, "reason": PENDING.get(pid, "check under construction in this round (runtime monitor designed in DESIGN.md, not yet registered); not claimed until it runs clean")})
json.dump(m, open(os.path.join(V, "MANIFEST.json"), "w"), indent=1)
print("MANIFEST.json:", len(m["checks"]), "checks,", len(m["not_applicable"]), "not claimed")
