#!/bin/bash
# usage: tools/try_mutant_wt.sh <patch.diff> <Cxx> [tier]
# Like try_mutant.sh, but leaves /repo alone: the change is applied to a scratch
# worktree of /repo HEAD and the check is run from a scratch copy of /verif
# (own build directory), so that it can run next to background checks.
set -u
patch=$1; prop=$2; tier=${3:-quick}
wt=/tmp/try-repo; vd=/tmp/verif-try
git -C /repo worktree remove --force $wt >/dev/null 2>&1; rm -rf $wt; git -C /repo worktree prune
git -C /repo worktree add -q --detach $wt HEAD || exit 9
rm -rf $vd; mkdir -p $vd/evidence
src=${VERIF_SRC:-/verif}; cp -r $src/check $src/check_meta.py $src/harness $src/tools $src/KNOWN_FINDINGS.json $src/properties.jsonl $vd/
( cd $wt && git apply "$patch" ) || { echo "PATCH DOES NOT APPLY"; exit 8; }
VERIF_REPO=$wt VERIF_REPLAYS=/dev/shm/mutant_replays $vd/check $prop $tier
rc=$?
git -C /repo worktree remove --force $wt; rm -rf $vd
exit $rc
