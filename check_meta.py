# Per-property text that goes into the evidence files: how cases are generated
# and what makes one distinct / non-trivial, and what each check assumes.
RULES = {
 "C20": "exhaustive part: every (capacity in {8,9,16,17}, head offset, fill) initial layout x every operation sequence over 16 operations (Push, Pop, Peek, six Discard arguments, Clear, three ForEach and three ForEachReverse variants) up to the stated depth, all compared with a slice model after every step (evaluations counts operation applications); random part: 12000-step sequences for *int and segment elements driven through the 8 -> doubling -> 1024 -> +10% growth regimes and back. distinct_nontrivial counts distinct (initial layout, first operation) subtrees of the exhaustive part plus distinct random sequences (hash of the descriptor); each of them applies at least depth operations.",
}
ASSUME = {
 "C20": ["Discard is only called with n >= 0 (as every caller in kcp.go does)"],
}
