//go:build verif

package kcp

// C11 — sessions on one socket are isolated; one Accept per new peer.
// One Listener, many clients with distinct addresses, conversation ids and
// content streams (so cross-delivery is visible), interleaved by the network;
// reconnects from the same address, a full accept backlog, foreign and stale
// datagram injection with before/after snapshots.

import (
	"fmt"
	"net"
	"sync"
	"sync/atomic"
	"testing"
	"testing/synctest"
	"time"
)

type c11Peer struct {
	id      int
	addr    net.Addr
	conn    *simConn
	conv    uint32
	up      uint64 // stream the client writes
	down    uint64 // stream the server writes back
	upLen   int
	downLen int
	sess    *UDPSession
	srv     *UDPSession
	accepts atomic.Int32
	upRead  atomic.Int64 // bytes of 'up' the server side has read and checked
	dnRead  atomic.Int64
	closedByReconnect atomic.Bool
	expectAccept      bool
}

type c11World struct {
	*sessWorld
	sc      *c11Scenario
	mu2     sync.Mutex
	peers   map[string]*c11Peer // addr + "/" + conv
	extra   map[string]bool     // conversations started by injected datagrams (legitimate new peers)
	wg      sync.WaitGroup
	accepted atomic.Int64
	stopAccept chan struct{}
	onAccept   func(p *c11Peer, s *UDPSession) // called before the handlers of an accepted session start
}

type c11Scenario struct {
	Case    int64      `json:"case"`
	Part    string     `json:"part"`
	Link    linkCfg    `json:"link"`
	Clients int        `json:"clients"`
	Net     netProfile `json:"net"`
	Bytes   int        `json:"bytes_each_way"`
	Reconnects int     `json:"reconnects"`
	Inject  int        `json:"injections"`
	PollAccept bool    `json:"accept_polls_with_deadlines,omitempty"` // the accept loop sets a deadline before every Accept: none, a few ms ahead, or one that has already passed
	ClockMs    uint32  `json:"clock_ms,omitempty"`                    // reading of the library's 32-bit millisecond clock when the scenario starts
	NoReconnect bool   `json:"-"`                                     // runC19: leave out the reconnect stage (its wire decoders are keyed by address pair only)
}

func peerKey(addr net.Addr, conv uint32) string { return fmt.Sprintf("%s/%#x", addr.String(), conv) }

func (w *c11World) viol11(key, format string, args ...any) {
	w.rec.violation(key, fmt.Sprintf("t=%dms ", w.hub.nowMs())+fmt.Sprintf(format, args...), w.sc)
}

// acceptLoop accepts for ever, checks the multiset rule and starts the
// server-side handler of each session.
func (w *c11World) acceptLoop() {
	var prng *vrng
	if w.sc.PollAccept {
		prng = newRng(uint64(w.sc.Case), 0xacc)
	}
	for {
		if prng != nil {
			switch prng.intn(4) {
			case 0:
				w.listener.SetReadDeadline(time.Time{})
			case 1:
				w.listener.SetReadDeadline(time.Now().Add(-time.Millisecond)) // late: already expired
			case 2:
				w.listener.SetReadDeadline(time.Now())
			default:
				w.listener.SetReadDeadline(time.Now().Add(time.Duration(prng.between(1, 40)) * time.Millisecond))
			}
		}
		s, err := w.listener.AcceptKCP()
		if err != nil {
			if prng != nil && classify(0, err) == "timeout" {
				// a poll that found nobody (or lost the draw against its own
				// deadline): whoever waits in the backlog is still there
				time.Sleep(time.Duration(prng.between(0, 3)) * time.Millisecond)
				continue
			}
			return
		}
		w.accepted.Add(1)
		key := peerKey(s.RemoteAddr(), s.GetConv())
		w.mu2.Lock()
		p := w.peers[key]
		extra := w.extra[key]
		w.mu2.Unlock()
		if p == nil {
			if !extra {
				w.viol11("C11 Accept returned a session for a peer that never started a conversation", "remote %s conv %#x", s.RemoteAddr(), s.GetConv())
			}
			w.mu.Lock()
			w.sessions = append(w.sessions, s)
			w.mu.Unlock()
			continue
		}
		if n := p.accepts.Add(1); n > 1 {
			w.viol11("C11 more than one Accept for one peer conversation", "peer %d (%s conv %#x) accepted %d times", p.id, p.addr, p.conv, n)
		}
		p.srv = s
		s.SetNoDelay(1, 10, 2, 1)
		s.SetWindowSize(128, 128)
		w.mu.Lock()
		w.sessions = append(w.sessions, s)
		w.mu.Unlock()
		if w.onAccept != nil {
			w.onAccept(p, s)
		}
		w.wg.Add(2)
		go w.serverReader(p, s)
		go w.serverWriter(p, s)
	}
}

func (w *c11World) serverReader(p *c11Peer, s *UDPSession) {
	defer w.wg.Done()
	buf := make([]byte, 2048)
	var off uint64
	for off < uint64(p.upLen) {
		n, err := s.Read(buf)
		if err != nil {
			// what any connection handler does when its Read fails (after some
			// clean-up work of its own)
			time.Sleep(time.Duration(p.id%4) * 7 * time.Millisecond)
			s.Close()
			return
		}
		if k := checkContent(p.up, off, buf[:n]); k >= 0 {
			w.viol11("C11 accepted session delivered bytes that its own peer did not write", "session of peer %d (%s conv %#x): %d bytes at offset %d differ at %d (another conversation's data, or corrupted)", p.id, p.addr, p.conv, n, off, k)
			return
		}
		off += uint64(n)
		p.upRead.Store(int64(off))
	}
	// keep serving until the connection ends, then close it like any handler
	for {
		n, err := s.Read(buf)
		if err != nil {
			time.Sleep(time.Duration(p.id%4) * 7 * time.Millisecond)
			s.Close()
			return
		}
		w.viol11("C11 accepted session delivered more bytes than its own peer wrote", "session of peer %d: %d extra bytes after the %d written", p.id, n, p.upLen)
	}
}

func (w *c11World) serverWriter(p *c11Peer, s *UDPSession) {
	defer w.wg.Done()
	buf := make([]byte, 700)
	for off := 0; off < p.downLen; {
		n := min(len(buf), p.downLen-off)
		fillContent(p.down, uint64(off), buf[:n])
		if _, err := s.Write(buf[:n]); err != nil {
			return
		}
		off += n
	}
}

func (w *c11World) clientIO(p *c11Peer, s *UDPSession) {
	w.wg.Add(2)
	go func() {
		defer w.wg.Done()
		buf := make([]byte, 600)
		for off := 0; off < p.upLen; {
			n := min(len(buf), p.upLen-off)
			fillContent(p.up, uint64(off), buf[:n])
			if _, err := s.Write(buf[:n]); err != nil {
				return
			}
			off += n
		}
	}()
	go func() {
		defer w.wg.Done()
		buf := make([]byte, 2048)
		var off uint64
		for off < uint64(p.downLen) {
			n, err := s.Read(buf)
			if err != nil {
				return
			}
			if k := checkContent(p.down, off, buf[:n]); k >= 0 {
				w.viol11("C11 dialled session delivered bytes that its own peer did not write", "client %d (%s conv %#x): %d bytes at offset %d differ at %d", p.id, p.addr, p.conv, n, off, k)
				return
			}
			off += uint64(n)
			p.dnRead.Store(int64(off))
		}
	}()
}

func (w *c11World) newPeer(id int, host byte, port int, conv uint32, bytes int, conn *simConn) *c11Peer {
	p := &c11Peer{id: id, conv: conv, upLen: bytes, downLen: bytes / 2, up: 0x100000 + uint64(id)*7, down: 0x200000 + uint64(id)*13, expectAccept: true}
	if conn == nil {
		p.addr = w.addr(host, port)
		p.conn = w.hub.listen(p.addr)
		w.mu.Lock()
		w.conns = append(w.conns, p.conn)
		w.mu.Unlock()
	} else {
		p.conn, p.addr = conn, conn.addr
	}
	w.mu2.Lock()
	w.peers[peerKey(p.addr, conv)] = p
	w.mu2.Unlock()
	s, _ := NewConn3(conv, w.laddr, w.block(), w.link.D, w.link.P, p.conn)
	s.SetNoDelay(1, 10, 2, 1)
	s.SetWindowSize(128, 128)
	p.sess = s
	w.mu.Lock()
	w.sessions = append(w.sessions, s)
	w.mu.Unlock()
	return p
}

func TestVerifC11(t *testing.T) {
	rec := newRec(t, "C11")
	defer rec.finish(t)
	env := rec.env
	var caseIdx int64
	for q := 0; q < env.pickN(64, 1600); q++ {
		idx := caseIdx
		caseIdx++
		if !env.mine(idx) {
			continue
		}
		rng := rec.seed(uint64(idx), 11)
		sc := c11Scenario{Case: idx, Part: "multi-peer"}
		sc.Link.Cipher = pick(rng, cipherNames)
		if rng.chance(0.5) {
			sc.Link.D, sc.Link.P = pick(rng, []int{1, 2, 3}), pick(rng, []int{1, 2})
		}
		sc.Link.UDPAddr = rng.chance(0.5)
		sc.Link.Batch = rng.chance(0.4)
		sc.Clients = pick(rng, []int{2, 3, 5, 8, 16, 24})
		if env.thorough() && q%10 == 0 {
			// (400 clients in one bubble needed 16 GB under the race detector and
			// crashed its runtime when the machine ran short of memory)
			sc.Clients = pick(rng, []int{48, 64, 128})
		}
		sc.Net = randomProfile(rng, rng.between(2000, 10000))
		if sc.Net.Loss > 0.3 {
			sc.Net.Loss = 0.3
		}
		for i := range sc.Net.Outages {
			if sc.Net.Outages[i][1] > sc.Net.Outages[i][0]+5000 {
				sc.Net.Outages[i][1] = sc.Net.Outages[i][0] + 5000
			}
		}
		sc.Bytes = rng.between(2000, 30000)
		if sc.Clients > 30 {
			sc.Bytes = 2000
		}
		sc.Reconnects = rng.intn(min(4, sc.Clients) + 1)
		sc.Inject = rng.between(5, 30)
		sc.PollAccept = rng.chance(0.4)
		sc.ClockMs = pick(rng, []uint32{0, 0, 100_000, 3_600_000, 1<<31 - 3000, 0xffffffff - 4000})
		if q%8 == 7 {
			sc.Part = "backlog"
			sc.Clients = 128 + rng.between(3, 20)
			sc.Bytes = 300
			sc.Reconnects = 0
			sc.Net = netProfile{Name: "clean", DelayMin: 2, DelayMax: 6, HealAt: 1}
		}
		rec.beginCase(sc)
		synctest.Test(t, func(t *testing.T) { runC11(t, rec, &sc, rng) })
		rec.eval(1)
		rec.nontrivial(hashAny(sc))
		rec.sample(sc.Part, 2, sc)
	}

	// ---- a neighbour whose transmit path hardly drains (real time, loopback UDP) ----
	// One accepted session has a rate limit, a huge send window and a bulk write
	// pending, so its transmit queue stays full. The other sessions of the
	// listener and new peers must not notice. Real time, because the failure this
	// looks for is one goroutine holding a session lock while the listener's
	// receive goroutine waits for it — a state in which a synctest bubble's
	// clock stands still.
	for q := 0; q < env.pickN(8, 64); q++ {
		idx := caseIdx
		caseIdx++
		if !env.mine(idx) {
			continue
		}
		rng := rec.seed(uint64(idx), 112)
		desc := map[string]any{"case": idx, "part": "throttled-neighbour", "cipher": pick(rng, []string{"", "aes-128", "salsa20", "aes-128-gcm"}), "fec": rng.chance(0.5), "neighbours": rng.between(2, 4)}
		rec.beginCase(desc)
		runThrottledNeighbour(rec, desc, rng)
		rec.eval(1)
		rec.nontrivial(hashAny(desc))
		rec.sample("throttled-neighbour", 1, desc)
	}
}

func runThrottledNeighbour(rec *vrec, desc map[string]any, rng *vrng) {
	installHooks()
	schedBubbleMode.Store(false)
	spec := cipherByName(desc["cipher"].(string))
	var key []byte
	if spec != nil {
		key = rng.bytes(spec.keyLen)
	}
	mk := func() BlockCrypt {
		if spec == nil {
			return nil
		}
		b, _ := spec.mk(key)
		return b
	}
	d, p := 0, 0
	if desc["fec"].(bool) {
		d, p = 3, 1
	}
	l, err := ListenWithOptions("127.0.0.1:0", mk(), d, p)
	if err != nil {
		rec.inconcl("throttled-neighbour: listen: " + err.Error())
		return
	}
	defer l.Close()
	// machine-stall monitor
	var maxOver atomic.Int64
	stopMon := make(chan struct{})
	var monWg sync.WaitGroup
	monWg.Add(1)
	go func() {
		defer monWg.Done()
		for {
			select {
			case <-stopMon:
				return
			default:
			}
			t0 := time.Now()
			time.Sleep(time.Millisecond)
			if o := int64(time.Since(t0) - time.Millisecond); o > maxOver.Load() {
				maxOver.Store(o)
			}
		}
	}()
	const echoLen = 6000
	var first atomic.Bool
	var throttledSrv atomic.Pointer[UDPSession]
	var wg sync.WaitGroup
	go func() {
		for {
			s, err := l.AcceptKCP()
			if err != nil {
				return
			}
			s.SetNoDelay(1, 10, 2, 1)
			if first.CompareAndSwap(false, true) {
				// the throttled one: 20 kB/s, 4096-segment window, 24 MB to send
				s.SetWindowSize(4096, 128)
				s.SetRateLimit(20000)
				throttledSrv.Store(s)
				wg.Add(1)
				go func() {
					defer wg.Done()
					buf := make([]byte, 8192)
					for i := 0; i < 3000; i++ {
						if _, err := s.Write(buf); err != nil {
							return
						}
					}
				}()
				continue
			}
			s.SetWindowSize(128, 128)
			wg.Add(1)
			go func() {
				defer wg.Done()
				defer s.Close()
				buf := make([]byte, 2048)
				got := 0
				for got < echoLen {
					s.SetReadDeadline(time.Now().Add(60 * time.Second))
					n, err := s.Read(buf)
					if err != nil {
						return
					}
					got += n
				}
				out := make([]byte, echoLen/2)
				fillContent(0xC11, 0, out)
				s.Write(out)
				time.Sleep(200 * time.Millisecond)
			}()
		}
	}()
	a, err := DialWithOptions(l.Addr().String(), mk(), d, p)
	if err != nil {
		rec.inconcl("throttled-neighbour: dial: " + err.Error())
		close(stopMon)
		monWg.Wait()
		return
	}
	a.SetNoDelay(1, 10, 2, 1)
	a.SetWindowSize(128, 4096)
	a.Write([]byte("start"))
	wg.Add(1)
	go func() {
		defer wg.Done()
		buf := make([]byte, 65536)
		for {
			if _, err := a.Read(buf); err != nil {
				return
			}
		}
	}()
	time.Sleep(1500 * time.Millisecond) // its transmit queue fills
	depth := 0
	if s := throttledSrv.Load(); s != nil {
		depth = len(s.chPostProcessing)
	}
	rec.maxCount("throttled_session_tx_queue_depth", int64(depth))
	// the neighbours: new peers that connect now and exchange a little data
	nn := desc["neighbours"].(int)
	type res struct {
		ok   bool
		what string
		took time.Duration
	}
	results := make(chan res, nn)
	var clients []*UDPSession
	var cmu sync.Mutex
	for i := 0; i < nn; i++ {
		go func(i int) {
			t0 := time.Now()
			c, err := DialWithOptions(l.Addr().String(), mk(), d, p)
			if err != nil {
				results <- res{true, "dial failed (not judged): " + err.Error(), 0}
				return
			}
			cmu.Lock()
			clients = append(clients, c)
			cmu.Unlock()
			c.SetNoDelay(1, 10, 2, 1)
			c.SetWindowSize(128, 128)
			c.SetDeadline(time.Now().Add(20 * time.Second))
			if _, err := c.Write(make([]byte, echoLen)); err != nil {
				results <- res{false, "write: " + err.Error(), time.Since(t0)}
				return
			}
			buf := make([]byte, 4096)
			got := 0
			for got < echoLen/2 {
				n, err := c.Read(buf)
				if err != nil {
					results <- res{false, fmt.Sprintf("read after %d of %d bytes: %v", got, echoLen/2, err), time.Since(t0)}
					return
				}
				if k := checkContent(0xC11, uint64(got), buf[:n]); k >= 0 {
					results <- res{false, fmt.Sprintf("reply differs at byte %d", got+k), time.Since(t0)}
					return
				}
				got += n
			}
			results <- res{true, "", time.Since(t0)}
		}(i)
	}
	var bad []string
	var slowest time.Duration
	for i := 0; i < nn; i++ {
		r := <-results
		if !r.ok {
			bad = append(bad, r.what)
		}
		if r.took > slowest {
			slowest = r.took
		}
	}
	close(stopMon)
	monWg.Wait()
	rec.maxCount("throttled_neighbour_slowest_exchange_ms", slowest.Milliseconds())
	rec.count("throttled_neighbour_scenarios", 1)
	if len(bad) > 0 {
		if over := time.Duration(maxOver.Load()); over > 100*time.Millisecond {
			rec.inconcl(fmt.Sprintf("throttled-neighbour case %v: neighbours failed but the machine stalled (1 ms sleep overshot by %v)", desc["case"], over))
		} else if depth == 0 {
			rec.inconcl(fmt.Sprintf("throttled-neighbour case %v: the throttled session never came up", desc["case"]))
		} else {
			rec.violationf(desc, "C11 a session sharing the socket stalled", "a neighbour of a session whose transmit queue is full (%d packets queued behind a 20 kB/s rate limit) could not exchange %d bytes within 20 s on loopback: %v (1 ms sleeps overshot by at most %v)", depth, echoLen, bad, time.Duration(maxOver.Load()))
		}
	}
	// shut down
	l.Close()
	a.Close()
	if s := throttledSrv.Load(); s != nil {
		s.Close()
	}
	cmu.Lock()
	for _, c := range clients {
		c.Close()
	}
	cmu.Unlock()
	done := make(chan struct{})
	go func() { wg.Wait(); close(done) }()
	select {
	case <-done:
	case <-time.After(30 * time.Second):
		rec.inconcl("throttled-neighbour: handlers still running 30 s after everything was closed")
	}
}

func runC11(t *testing.T, rec *vrec, sc *c11Scenario, rng *vrng) {
	netRng := newRng(rng.u64())
	pf := sc.Net.fate(netRng)
	laddrS := ""
	sw := newSessWorld(t, rec, sc, sc.Link, uint64(sc.Case), func(from, to string, nth int, now int64, data []byte) []int {
		dir := 0
		if from == laddrS {
			dir = 1
		}
		return pf(dir, nth, now, data)
	})
	// the library's millisecond clock: freshly started, a process that has been up
	// for minutes, or about to pass 2^31 / 2^32
	refTime = time.Now().Add(-time.Duration(sc.ClockMs) * time.Millisecond)
	yieldMode.Store(1)
	defer yieldMode.Store(0)
	scCopy := *sc
	w := &c11World{sessWorld: sw, sc: &scCopy, peers: map[string]*c11Peer{}, extra: map[string]bool{}}
	w.listen()
	laddrS = w.laddr.String()
	// capture datagrams towards the listener per source (for replay injection)
	var capMu sync.Mutex
	capt := map[string][][]byte{}
	captDown := map[string][][]byte{}
	w.hub.tap = func(from, to net.Addr, data []byte, nowMs int64) {
		capMu.Lock()
		if to.String() == laddrS {
			if l := capt[from.String()]; len(l) < 60 {
				capt[from.String()] = append(l, data)
			}
		} else if from.String() == laddrS {
			if l := captDown[to.String()]; len(l) < 60 {
				captDown[to.String()] = append(l, data)
			}
		}
		capMu.Unlock()
	}
	backlog := sc.Part == "backlog"
	backlogClose := sc.Part == "backlog-close" // nobody ever accepts; everything is shut down with the sessions waiting
	if !backlog && !backlogClose {
		go w.acceptLoop()
	}
	var peers []*c11Peer
	for i := 0; i < sc.Clients; i++ {
		p := w.newPeer(i, byte(2+i%250), 5000+i, uint32(0x10000+i*17+int(sc.Case&0xff)), sc.Bytes, nil)
		peers = append(peers, p)
		w.clientIO(p, p.sess)
		if rng.chance(0.5) {
			time.Sleep(time.Duration(rng.intn(30)) * time.Millisecond)
		}
	}
	if backlogClose {
		time.Sleep(2 * time.Second)
		synctest.Wait()
		rec.count("sessions_waiting_in_the_backlog_at_shutdown", int64(len(w.listener.chAccepts)))
		if n := len(w.listener.chAccepts); n != min(sc.Clients, acceptBacklog) {
			w.viol11("C11 a new peer never produced an Accept", "%d sessions waiting in the backlog, %d peers connected", n, sc.Clients)
		}
		order := [][]string{{"own-sessions", "listener", "transports"}, {"listener", "own-sessions", "transports"}, {"listener", "transports", "own-sessions"}}[rng.intn(3)]
		w.shutdown(order, true) // leak check 10 virtual minutes later, before anything is reaped
		done := make(chan struct{})
		go func() { w.wg.Wait(); close(done) }()
		select {
		case <-done:
		case <-time.After(time.Minute):
			w.viol11("C13 caller still blocked a virtual minute after everything was closed", "")
		}
		return
	}
	if backlog {
		// nobody accepts while > 128 peers connect; then the backlog is drained
		time.Sleep(2 * time.Second)
		synctest.Wait()
		if n := len(w.listener.chAccepts); n != acceptBacklog {
			w.viol11("C11 accept backlog not filled to its capacity by more new peers than it holds", "%d sessions waiting, capacity %d, %d peers connected", n, acceptBacklog, sc.Clients)
		}
		rec.count("backlog_scenarios", 1)
		go w.acceptLoop()
	}

	// reconnects: same address, new conversation
	for r := 0; r < sc.Reconnects; r++ {
		time.Sleep(time.Duration(rng.between(50, 1500)) * time.Millisecond)
		old := peers[rng.intn(len(peers))]
		if old.closedByReconnect.Load() || old.accepts.Load() == 0 {
			continue
		}
		// A stale copy of the old conversation's first datagram (sn 0) arriving
		// after the new conversation began would legitimately start the old one
		// again (the listener cannot tell). Reconnect only once sn 0 is
		// acknowledged and every copy in flight has landed.
		old.sess.mu.Lock()
		acked := old.sess.kcp.snd_una != 0
		old.sess.mu.Unlock()
		if !acked || sc.Net.DelayMax > 500 {
			rec.count("reconnects_skipped_first_datagram_possibly_in_flight", 1)
			continue
		}
		time.Sleep(time.Duration(sc.Net.DelayMax+50) * time.Millisecond)
		old.closedByReconnect.Store(true)
		old.sess.Close()
		np := w.newPeer(1000+r, 0, 0, old.conv+0x5000000+uint32(r), sc.Bytes/2+1, old.conn)
		peers = append(peers, np)
		w.clientIO(np, np.sess)
		rec.count("reconnects_same_address_new_conversation", 1)
	}

	// foreign / stale injection at quiescent points
	injected := 0
	for k := 0; k < sc.Inject && !backlog; k++ {
		time.Sleep(time.Duration(rng.between(20, 600)) * time.Millisecond)
		w.hub.frozen.Store(true)
		time.Sleep(time.Duration(sc.Net.DelayMax+sc.Net.DelayMin+50) * time.Millisecond)
		synctest.Wait()
		victim := peers[rng.intn(len(peers))]
		if victim.srv == nil || victim.closedByReconnect.Load() {
			w.hub.frozen.Store(false)
			continue
		}
		capMu.Lock()
		var donors []string
		for a := range capt {
			if a != victim.addr.String() {
				donors = append(donors, a)
			}
		}
		var own [][]byte
		own = append(own, captDown[victim.addr.String()]...)
		capMu.Unlock()
		mode := rng.intn(3)
		if mode == 1 && rng.chance(0.5) && len(donors) > 0 && w.link.Cipher == "" && w.link.D == 0 {
			mode = 11 // the captured-datagram variant below
		}
		switch {
		case mode == 0 && len(donors) > 0:
			// another conversation's genuine datagrams, replayed from a third
			// address: must not touch the victim's accepted session
			donor := donors[rng.intn(len(donors))]
			capMu.Lock()
			d := capt[donor][rng.intn(len(capt[donor]))]
			capMu.Unlock()
			third := w.addr(byte(200+rng.intn(50)), 9000+k)
			// a valid datagram from a new address legitimately starts a new peer
			w.mu2.Lock()
			for _, p := range peers {
				w.extra[peerKey(third, p.conv)] = true
			}
			w.mu2.Unlock()
			s1 := sessionSnapshot(victim.srv)
			w.hub.inject(third, laddrS, d)
			synctest.Wait()
			if s2 := sessionSnapshot(victim.srv); s1 != s2 {
				w.viol11("C11 traffic from another address changed an accepted session", "victim peer %d; datagram of %s replayed from %s: %s", victim.id, donor, third, snapDiff(s1, s2))
			}
			rec.count("injected_foreign_datagram_from_third_address", 1)
			injected++
		case mode == 11 && len(donors) > 0:
			// another conversation's datagram with the VICTIM's source address:
			// conversation id mismatch -> ignored unless it starts a conversation
			donor := donors[rng.intn(len(donors))]
			capMu.Lock()
			list := capt[donor]
			// not the conversation-starting datagram (sn 0 would legitimately replace the session)
			d := list[1+rng.intn(max(1, len(list)-1))%len(list)]
			if len(list) < 2 {
				d = nil
			}
			capMu.Unlock()
			if d == nil || w.link.Cipher != "" || w.link.D != 0 {
				// sn is only inspectable by the harness without cipher/FEC
				break
			}
			segs, perr := parseKCP(d)
			if perr != "" || len(segs) == 0 || segs[0].sn == 0 {
				break
			}
			s1 := sessionSnapshot(victim.srv)
			l1 := listenerSnapshot(w.listener)
			w.hub.inject(victim.addr, laddrS, d)
			synctest.Wait()
			if s2 := sessionSnapshot(victim.srv); s1 != s2 {
				w.viol11("C11 datagram of a different conversation from the same address was merged into the session", "victim peer %d (conv %#x), datagram of conv %#x sn %d: %s", victim.id, victim.conv, segs[0].conv, segs[0].sn, snapDiff(s1, s2))
			}
			if l2 := listenerSnapshot(w.listener); l1 != l2 {
				w.viol11("C11 datagram of a different conversation (not starting one) changed the session table", "%s -> %s", l1, l2)
			}
			rec.count("injected_other_conversation_from_same_address", 1)
			injected++
		case mode == 1 && w.link.D == 0:
			// a datagram from the victim's own address whose first segment belongs
			// to the conversation (a window announcement that changes nothing) and
			// whose second segment carries another conversation id with exactly
			// the sequence number the session expects: must not be merged
			v := victim.srv
			v.mu.Lock()
			quiet := len(v.kcp.acklist) == 0
			noop := wseg{conv: v.kcp.conv, cmd: IKCP_CMD_WINS, wnd: uint16(v.kcp.rmt_wnd), una: v.kcp.snd_una}
			alien := wseg{conv: v.kcp.conv ^ 0x0badc0de, cmd: IKCP_CMD_PUSH, wnd: uint16(v.kcp.rmt_wnd), sn: v.kcp.rcv_nxt, una: v.kcp.snd_una, data: []byte("ALIEN-CONVERSATION")}
			v.mu.Unlock()
			if !quiet {
				break
			}
			dg := newSealer(cipherByName(w.link.Cipher), w.key).seal(rng, append(encodeSeg(noop), encodeSeg(alien)...))
			s1 := sessionSnapshot(v)
			w.hub.inject(victim.addr, laddrS, dg)
			synctest.Wait()
			if s2 := sessionSnapshot(v); s1 != s2 {
				w.viol11("C11 a segment with a different conversation id inside a datagram from the same address was merged into the session", "victim peer %d (conv %#x): %s", victim.id, victim.conv, snapDiff(s1, s2))
			}
			rec.count("injected_mixed_conversation_datagram_from_same_address", 1)
			injected++
		case mode == 2 && len(own) > 0:
			// dialled session: genuine server datagrams arriving from a non-peer
			// address must be ignored
			d := own[rng.intn(len(own))]
			third := w.addr(byte(200+rng.intn(50)), 9500+k)
			switch rng.intn(3) {
			case 0:
				third = w.addr(1, 4001+k) // the peer's host, another port
				rec.count("injected_into_dialled_session_from_the_peers_host_other_port", 1)
			case 1:
				third = w.addr(byte(200+rng.intn(50)), 4000) // another host, the peer's port
			}
			s1 := sessionSnapshot(victim.sess)
			m1 := DefaultSnmp.Copy()
			w.hub.inject(third, victim.addr.String(), d)
			synctest.Wait()
			if s2 := sessionSnapshot(victim.sess); s1 != s2 {
				w.viol11("C11 dialled session accepted a datagram that did not come from its peer's address", "client %d: %s", victim.id, snapDiff(s1, s2))
			}
			if d := snmpDiff(m1, DefaultSnmp.Copy()); d["InErrs"] != 1 {
				rec.count("non_peer_datagram_not_counted_in_InErrs", 1)
			}
			rec.count("injected_into_dialled_session_from_non_peer_address", 1)
			injected++
		}
		w.hub.frozen.Store(false)
	}

	// let everything finish: bounded virtual time after the network healed
	limit := time.Duration(sc.Net.HealAt)*time.Millisecond + 10*time.Minute
	if backlog {
		limit = 2 * time.Minute
	}
	complete := func() bool {
		for _, p := range peers {
			if p.closedByReconnect.Load() {
				continue
			}
			if p.upRead.Load() != int64(p.upLen) || p.dnRead.Load() != int64(p.downLen) {
				return false
			}
		}
		return true
	}
	deadline := time.Now().Add(limit)
	for !complete() && time.Now().Before(deadline) {
		time.Sleep(200 * time.Millisecond)
	}
	synctest.Wait()
	for _, p := range peers {
		if p.closedByReconnect.Load() {
			continue
		}
		if p.accepts.Load() == 0 {
			w.viol11("C11 a new peer never produced an Accept", "peer %d (%s conv %#x), %d of %d peers accepted", p.id, p.addr, p.conv, w.accepted.Load(), len(peers))
		} else if p.upRead.Load() != int64(p.upLen) || p.dnRead.Load() != int64(p.downLen) {
			w.viol11("C11 a session sharing the socket stalled", "peer %d: server read %d/%d, client read %d/%d; client %s", p.id, p.upRead.Load(), p.upLen, p.dnRead.Load(), p.downLen, sessProgress(p.sess))
		}
	}
	rec.count("peers", int64(len(peers)))
	rec.count("accepts_observed", w.accepted.Load())
	rec.count("injections_judged", int64(injected))
	// shut down: sessions, listener, transports
	w.shutdown(nil, false)
	synctest.Wait() // the accept loop has ended: no more handlers are started
	done := make(chan struct{})
	go func() { w.wg.Wait(); close(done) }()
	select {
	case <-done:
	case <-time.After(time.Minute):
		w.viol11("C13 caller still blocked a virtual minute after everything was closed", "")
	}
	time.Sleep(10 * time.Minute)
	synctest.Wait()
	w.leakCheck()
	w.reap()
}
