//go:build verif

package kcp

// C17 — timed scheduler: every task runs exactly once, never early, promptly.
// Real time (the scheduler cannot run inside a synctest bubble), real
// NewTimedSched, under the race detector, with yields (H4 points 6 and 7)
// inside the worker's stop/drain/reset sequence and the hand-off. Run by the
// driver under GODEBUG=asynctimerchan=0 and =1.

import (
	"fmt"
	"math"
	"os"
	"sync"
	"sync/atomic"
	"testing"
	"time"
)

type schedTask struct {
	deadline time.Time
	far      bool
	count    atomic.Int32
	early    atomic.Bool
	ranAt    atomic.Int64 // ns since round start
	putAt    int64        // ns since round start when Put returned
}

// c17Far: a far-future deadline of one of several magnitudes, up to the largest
// instants a time.Time can be asked to hold.
func c17Far(r *vrng) time.Time {
	now := time.Now()
	switch r.intn(5) {
	case 0:
		return now.AddDate(100, 0, 0)
	case 1:
		return now.Add(math.MaxInt64) // ~292 years: beyond what UnixNano can express
	case 2:
		return time.Date(9999, 12, 31, 23, 59, 59, 0, time.UTC)
	case 3:
		return time.Unix(1<<40, 0)
	}
	return now.Add(time.Hour + time.Duration(r.intn(1000))*time.Second)
}

func TestVerifC17(t *testing.T) {
	rec := newRec(t, "C17")
	defer rec.finish(t)
	env := rec.env
	installHooks()
	schedBubbleMode.Store(false)
	setCurrent(rec, nil)
	yieldMode.Store(2)
	defer yieldMode.Store(0)
	rec.note("GODEBUG", os.Getenv("GODEBUG"))
	rounds := env.pickN(40, 600)
	patterns := []string{"past", "now", "equal-cluster", "increasing", "decreasing", "near-far", "random", "waves", "mixed"}
	var caseIdx int64
	for r := 0; r < rounds; r++ {
		idx := caseIdx
		caseIdx++
		if !env.mine(idx) {
			continue
		}
		rng := rec.seed(uint64(idx), 17)
		par := pick(rng, []int{1, 2, 4, 16})
		M := pick(rng, []int{1, 2, 8, 32, 64})
		K := pick(rng, []int{10, 50, 200})
		if M*K > 6000 {
			K = 6000 / M
		}
		pat := patterns[r%len(patterns)]
		withYield := r%3 != 0
		desc := map[string]any{"case": idx, "workers": par, "submitters": M, "tasks_each": K, "pattern": pat, "yields": withYield, "GODEBUG": os.Getenv("GODEBUG")}
		rec.beginCase(desc)
		if withYield {
			yieldMode.Store(2)
		} else {
			yieldMode.Store(0)
		}
		ts := NewTimedSched(par)
		start := time.Now()
		base := start.Add(30 * time.Millisecond)
		tasks := make([][]*schedTask, M)
		var wg sync.WaitGroup
		var maxDeadline atomic.Int64
		for g := 0; g < M; g++ {
			tasks[g] = make([]*schedTask, K)
			grng := rec.seed(uint64(idx), 171, uint64(g))
			wg.Add(1)
			go func(g int) {
				defer wg.Done()
				for i := 0; i < K; i++ {
					tk := &schedTask{}
					p := pat
					if p == "mixed" {
						p = patterns[grng.intn(len(patterns)-1)]
					}
					switch p {
					case "past":
						tk.deadline = time.Now().Add(-time.Duration(grng.intn(50000)) * time.Microsecond)
					case "now":
						tk.deadline = time.Now()
					case "equal-cluster":
						tk.deadline = base.Add(time.Duration(grng.intn(3)) * 10 * time.Millisecond)
					case "increasing":
						tk.deadline = base.Add(time.Duration(i) * 100 * time.Microsecond)
					case "decreasing":
						tk.deadline = base.Add(time.Duration(K-i) * 100 * time.Microsecond)
					case "near-far":
						if i%2 == 0 {
							tk.deadline = c17Far(grng)
							tk.far = true
						} else {
							tk.deadline = time.Now().Add(time.Duration(grng.intn(20000)) * time.Microsecond)
						}
					case "waves":
						// a far-future task early on, then waves of near tasks submitted
						// after earlier ones have fired (the worker's heap is drained
						// only partly: the far task stays)
						if i%16 == 0 {
							tk.deadline = c17Far(grng)
							tk.far = true
						} else {
							if i%8 == 1 {
								time.Sleep(time.Duration(5+grng.intn(25)) * time.Millisecond)
							}
							tk.deadline = time.Now().Add(time.Duration(1000+grng.intn(9000)) * time.Microsecond)
						}
					default:
						tk.deadline = time.Now().Add(time.Duration(grng.intn(200000)-20000) * time.Microsecond)
					}
					if !tk.far {
						for {
							d := tk.deadline.Sub(start).Nanoseconds()
							old := maxDeadline.Load()
							if d <= old || maxDeadline.CompareAndSwap(old, d) {
								break
							}
						}
					}
					tasks[g][i] = tk
					ts.Put(func() {
						now := time.Now()
						if now.Before(tk.deadline) {
							tk.early.Store(true)
						}
						tk.ranAt.CompareAndSwap(0, now.Sub(start).Nanoseconds()+1)
						tk.count.Add(1)
					}, tk.deadline)
					tk.putAt = time.Since(start).Nanoseconds()
					if grng.intn(16) == 0 {
						time.Sleep(time.Duration(grng.intn(300)) * time.Microsecond)
					}
				}
			}(g)
		}
		wg.Wait()
		// control timer for the last near deadline
		lastDeadline := start.Add(time.Duration(maxDeadline.Load()))
		var controlLate atomic.Int64
		controlLate.Store(-1)
		ctl := time.AfterFunc(time.Until(lastDeadline), func() { controlLate.Store(int64(time.Since(lastDeadline))) })
		// wait until every near task ran, at most 10 s beyond the last deadline
		pendingNear := func() int {
			n := 0
			for g := range tasks {
				for _, tk := range tasks[g] {
					if !tk.far && tk.count.Load() == 0 {
						n++
					}
				}
			}
			return n
		}
		giveUp := lastDeadline.Add(10 * time.Second)
		for pendingNear() > 0 && time.Now().Before(giveUp) {
			time.Sleep(2 * time.Millisecond)
		}
		missing := pendingNear()
		time.Sleep(20 * time.Millisecond) // grace: a second execution would show up here
		ctl.Stop()
		// verdicts
		var nTasks, nFar, nearSimultaneous int64
		var maxLate time.Duration
		for g := range tasks {
			for _, tk := range tasks[g] {
				nTasks++
				c := tk.count.Load()
				if tk.far {
					nFar++
					if c != 0 {
						rec.violationf(desc, "C17 task ran before its deadline", "a task due in more than an hour ran %d time(s)", c)
					}
					continue
				}
				if c > 1 {
					rec.violationf(desc, "C17 task ran more than once", "count=%d deadline=+%v", c, tk.deadline.Sub(start))
				}
				if tk.early.Load() {
					rec.violationf(desc, "C17 task ran before its deadline", "deadline=+%v ran at +%v", tk.deadline.Sub(start), time.Duration(tk.ranAt.Load()))
				}
				if c >= 1 {
					ref := tk.deadline.Sub(start).Nanoseconds()
					if tk.putAt > ref {
						ref = tk.putAt
					}
					late := time.Duration(tk.ranAt.Load() - ref)
					if late > maxLate {
						maxLate = late
					}
					if d := tk.putAt - tk.deadline.Sub(start).Nanoseconds(); d > -50000 && d < 50000 {
						nearSimultaneous++
					}
					b := "lateness<1ms"
					switch {
					case late >= time.Second:
						b = "lateness>=1s"
					case late >= 100*time.Millisecond:
						b = "lateness<1s"
					case late >= 10*time.Millisecond:
						b = "lateness<100ms"
					case late >= time.Millisecond:
						b = "lateness<10ms"
					}
					rec.count(b, 1)
				}
			}
		}
		cl := time.Duration(controlLate.Load())
		if missing > 0 {
			if controlLate.Load() >= 0 && cl < time.Second {
				rec.violationf(desc, "C17 task never ran", "%d of %d near tasks had not run 10 s after the last deadline although a control timer armed for that instant fired %v late", missing, nTasks-nFar, cl)
			} else {
				rec.inconcl(fmt.Sprintf("round %d: %d tasks pending but the control timer itself was late (%v): machine stalled", idx, missing, cl))
			}
		} else if maxLate > 5*time.Second {
			if controlLate.Load() >= 0 && cl < time.Second {
				rec.violationf(desc, "C17 task ran late", "max lateness %v while the control timer was %v late", maxLate, cl)
			} else {
				rec.inconcl(fmt.Sprintf("round %d: lateness %v with a late control timer", idx, maxLate))
			}
		}
		// (e) Close: tasks still pending may or may not run, never twice
		var after []*schedTask
		for i := 0; i < 50; i++ {
			tk := &schedTask{deadline: time.Now().Add(time.Duration(rng.intn(4000)) * time.Microsecond)}
			after = append(after, tk)
			ts.Put(func() { tk.count.Add(1) }, tk.deadline)
		}
		time.Sleep(time.Duration(rng.intn(3000)) * time.Microsecond)
		ts.Close()
		ts.Close()
		ts.Put(func() {}, time.Now()) // must not panic or block
		time.Sleep(10 * time.Millisecond)
		for _, tk := range after {
			if tk.count.Load() > 1 {
				rec.violationf(desc, "C17 task ran more than once", "task submitted just before Close ran %d times", tk.count.Load())
			}
		}
		rec.eval(nTasks)
		rec.count("tasks_submitted", nTasks)
		rec.count("far_future_tasks", nFar)
		rec.count("put_within_50us_of_deadline", nearSimultaneous)
		rec.count("rounds", 1)
		rec.maxCount("max_lateness_us", int64(maxLate/time.Microsecond))
		rec.nontrivial(hashAny(desc))
		rec.sample("round", 3, desc)
	}
	c17Busy(rec, &caseIdx)
	for i := 6; i <= 7; i++ {
		rec.count(fmt.Sprintf("yield_point_%d_reached", i), yieldCounts[i].Load())
	}
}

// c17Busy: long-running tasks. A task may have to wait for the worker that holds
// it, but once that worker is free (and the deadline has passed) it runs
// promptly: the time an earlier task took is not added a second time.
//
//	bound(X) = max(X.deadline, X.put, latest end of a long task begun before X ran)
//
// X must start within c17Slack of bound(X); a round in which the machine itself
// was observed to stall (sleep overshoot) is inconclusive instead.
const c17Slack = 150 * time.Millisecond

type busyTask struct {
	schedTask
	long         time.Duration
	startNs, end atomic.Int64
	name         string
}

func c17Busy(rec *vrec, caseIdx *int64) {
	env := rec.env
	rounds := env.pickN(24, 240)
	for r := 0; r < rounds; r++ {
		idx := *caseIdx
		*caseIdx++
		if !env.mine(idx) {
			continue
		}
		rng := rec.seed(uint64(idx), 172)
		par := pick(rng, []int{1, 1, 2})
		busy := time.Duration(pick(rng, []int{400, 500, 700})) * time.Millisecond
		scripted := r%2 == 0
		desc := map[string]any{"case": idx, "part": "busy-worker", "workers": par, "busy_ms": busy.Milliseconds(), "scripted": scripted, "GODEBUG": os.Getenv("GODEBUG")}
		rec.beginCase(desc)
		yieldMode.Store(0)
		ts := NewTimedSched(par)
		start := time.Now()
		// stall monitor: how much does a 1 ms sleep overshoot on this machine now?
		var maxOver atomic.Int64
		stopMon := make(chan struct{})
		var monWg sync.WaitGroup
		monWg.Add(1)
		go func() {
			defer monWg.Done()
			for {
				select {
				case <-stopMon:
					return
				default:
				}
				t0 := time.Now()
				time.Sleep(time.Millisecond)
				if o := int64(time.Since(t0) - time.Millisecond); o > maxOver.Load() {
					maxOver.Store(o)
				}
			}
		}()
		var all []*busyTask
		var longStarted = make(chan struct{}, 16)
		put := func(name string, deadline time.Time, long time.Duration) *busyTask {
			tk := &busyTask{long: long, name: name}
			tk.deadline = deadline
			all = append(all, tk)
			ts.Put(func() {
				now := time.Now()
				if now.Before(tk.deadline) {
					tk.early.Store(true)
				}
				tk.ranAt.CompareAndSwap(0, now.Sub(start).Nanoseconds()+1)
				tk.count.Add(1)
				if tk.long > 0 {
					select {
					case longStarted <- struct{}{}:
					default:
					}
					time.Sleep(tk.long)
					tk.end.Store(time.Since(start).Nanoseconds())
				}
			}, deadline)
			tk.putAt = time.Since(start).Nanoseconds()
			return tk
		}
		if scripted {
			// a near task waits in the heap; an overdue long task is taken from the
			// hand-off channel and runs; the near task's timer fires meanwhile; more
			// tasks are submitted while the worker is busy
			for w := 0; w < par; w++ {
				put("heap-during-busy", time.Now().Add(time.Duration(60+rng.intn(100))*time.Millisecond), 0)
			}
			time.Sleep(20 * time.Millisecond)
			for w := 0; w < par; w++ {
				put("long-overdue", time.Now().Add(-time.Millisecond), busy)
			}
			for w := 0; w < par; w++ {
				select {
				case <-longStarted:
				case <-time.After(5 * time.Second):
				}
			}
			put("submitted-while-busy-due-after", time.Now().Add(busy+time.Duration(20+rng.intn(60))*time.Millisecond), 0)
			put("submitted-while-busy-due-during", time.Now().Add(busy/2), 0)
			put("submitted-while-busy-overdue", time.Now().Add(-time.Millisecond), 0)
			for i := 0; i < rng.between(0, 4); i++ {
				put("submitted-while-busy-random", time.Now().Add(time.Duration(rng.intn(int(2*busy)))), 0)
			}
			// and the sibling path: long task and its successors all in the heap
			time.Sleep(2*busy + 300*time.Millisecond)
			t0 := time.Now().Add(50 * time.Millisecond)
			for w := 0; w < par; w++ {
				put("long-from-heap", t0, busy)
			}
			for i := 0; i < 3+rng.intn(4); i++ {
				put("heap-due-during-busy", t0.Add(time.Duration(1+rng.intn(int(busy-time.Millisecond)))), 0)
			}
			put("heap-due-after-busy", t0.Add(busy+40*time.Millisecond), 0)
		} else {
			steps := rng.between(15, 40)
			nLong := 0
			for i := 0; i < steps; i++ {
				switch x := rng.intn(10); {
				case x == 0 && nLong < 3:
					nLong++
					put("long-overdue", time.Now().Add(-time.Duration(rng.intn(3))*time.Millisecond), busy)
				case x == 1 && nLong < 3:
					nLong++
					put("long-from-heap", time.Now().Add(time.Duration(rng.intn(80))*time.Millisecond), busy)
				case x < 4:
					time.Sleep(time.Duration(rng.intn(120)) * time.Millisecond)
				default:
					put("near", time.Now().Add(time.Duration(rng.intn(int(busy*3/2)))-5*time.Millisecond), 0)
				}
			}
		}
		// wait for everything: all deadlines are within a few busy periods
		var last time.Time
		for _, tk := range all {
			if tk.deadline.After(last) {
				last = tk.deadline
			}
		}
		giveUp := last.Add(time.Duration(len(all))*busy/4 + 4*busy + 10*time.Second)
		pending := func() int {
			n := 0
			for _, tk := range all {
				if tk.count.Load() == 0 || (tk.long > 0 && tk.end.Load() == 0) {
					n++
				}
			}
			return n
		}
		for pending() > 0 && time.Now().Before(giveUp) {
			time.Sleep(5 * time.Millisecond)
		}
		time.Sleep(20 * time.Millisecond)
		close(stopMon)
		monWg.Wait()
		ts.Close()
		stalled := time.Duration(maxOver.Load()) > 25*time.Millisecond
		if n := pending(); n > 0 {
			if stalled {
				rec.inconcl(fmt.Sprintf("busy round %d: %d tasks pending, machine stalled (1 ms sleep overshot by %v)", idx, n, time.Duration(maxOver.Load())))
			} else {
				rec.violationf(desc, "C17 task never ran", "%d of %d tasks of a round with long-running tasks had not run", n, len(all))
			}
			continue
		}
		var worst time.Duration
		for _, tk := range all {
			if c := tk.count.Load(); c > 1 {
				rec.violationf(desc, "C17 task ran more than once", "%s: count=%d", tk.name, c)
			}
			if tk.early.Load() {
				rec.violationf(desc, "C17 task ran before its deadline", "%s: deadline=+%v ran at +%v", tk.name, tk.deadline.Sub(start), time.Duration(tk.ranAt.Load()))
			}
			ran := tk.ranAt.Load() - 1
			bound := tk.deadline.Sub(start).Nanoseconds()
			if tk.putAt > bound {
				bound = tk.putAt
			}
			for _, l := range all {
				if l.long > 0 && l != tk && l.ranAt.Load()-1 <= ran && l.end.Load() > bound {
					bound = l.end.Load()
				}
			}
			late := time.Duration(ran - bound)
			if late > worst {
				worst = late
			}
			rec.count("busy_tasks_judged:"+tk.name, 1)
			if late > c17Slack {
				if stalled {
					rec.inconcl(fmt.Sprintf("busy round %d: lateness %v but the machine stalled (1 ms sleep overshot by %v)", idx, late, time.Duration(maxOver.Load())))
				} else {
					rec.violationf(desc, "C17 task ran late although its deadline had passed and its worker was free", "%s: deadline +%v, submitted at +%v, ran at +%v: %v after the latest of deadline, submission and the end of every long task begun before it (long tasks take %v; 1 ms sleeps overshot by at most %v)", tk.name, tk.deadline.Sub(start), time.Duration(tk.putAt), time.Duration(ran), late, busy, time.Duration(maxOver.Load()))
				}
			}
		}
		rec.eval(int64(len(all)))
		rec.count("busy_rounds", 1)
		rec.maxCount("busy_max_lateness_beyond_bound_us", int64(worst/time.Microsecond))
		rec.nontrivial(hashAny(desc))
		rec.sample("busy-worker", 2, desc)
	}
}
