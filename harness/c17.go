//go:build verif

package kcp

// C17 — timed scheduler: every task runs exactly once, never early, promptly.
// Real time (the scheduler cannot run inside a synctest bubble), real
// NewTimedSched, under the race detector, with yields (H4 points 6 and 7)
// inside the worker's stop/drain/reset sequence and the hand-off. Run by the
// driver under GODEBUG=asynctimerchan=0 and =1.

import (
	"fmt"
	"os"
	"sync"
	"sync/atomic"
	"testing"
	"time"
)

type schedTask struct {
	deadline time.Time
	far      bool
	count    atomic.Int32
	early    atomic.Bool
	ranAt    atomic.Int64 // ns since round start
	putAt    int64        // ns since round start when Put returned
}

func TestVerifC17(t *testing.T) {
	rec := newRec(t, "C17")
	defer rec.finish(t)
	env := rec.env
	installHooks()
	schedBubbleMode.Store(false)
	setCurrent(rec, nil)
	yieldMode.Store(2)
	defer yieldMode.Store(0)
	rec.note("GODEBUG", os.Getenv("GODEBUG"))
	rounds := env.pickN(40, 600)
	patterns := []string{"past", "now", "equal-cluster", "increasing", "decreasing", "near-far", "random", "waves", "mixed"}
	var caseIdx int64
	for r := 0; r < rounds; r++ {
		idx := caseIdx
		caseIdx++
		if !env.mine(idx) {
			continue
		}
		rng := rec.seed(uint64(idx), 17)
		par := pick(rng, []int{1, 2, 4, 16})
		M := pick(rng, []int{1, 2, 8, 32, 64})
		K := pick(rng, []int{10, 50, 200})
		if M*K > 6000 {
			K = 6000 / M
		}
		pat := patterns[r%len(patterns)]
		withYield := r%3 != 0
		desc := map[string]any{"case": idx, "workers": par, "submitters": M, "tasks_each": K, "pattern": pat, "yields": withYield, "GODEBUG": os.Getenv("GODEBUG")}
		rec.beginCase(desc)
		if withYield {
			yieldMode.Store(2)
		} else {
			yieldMode.Store(0)
		}
		ts := NewTimedSched(par)
		start := time.Now()
		base := start.Add(30 * time.Millisecond)
		tasks := make([][]*schedTask, M)
		var wg sync.WaitGroup
		var maxDeadline atomic.Int64
		for g := 0; g < M; g++ {
			tasks[g] = make([]*schedTask, K)
			grng := rec.seed(uint64(idx), 171, uint64(g))
			wg.Add(1)
			go func(g int) {
				defer wg.Done()
				for i := 0; i < K; i++ {
					tk := &schedTask{}
					p := pat
					if p == "mixed" {
						p = patterns[grng.intn(len(patterns)-1)]
					}
					switch p {
					case "past":
						tk.deadline = time.Now().Add(-time.Duration(grng.intn(50000)) * time.Microsecond)
					case "now":
						tk.deadline = time.Now()
					case "equal-cluster":
						tk.deadline = base.Add(time.Duration(grng.intn(3)) * 10 * time.Millisecond)
					case "increasing":
						tk.deadline = base.Add(time.Duration(i) * 100 * time.Microsecond)
					case "decreasing":
						tk.deadline = base.Add(time.Duration(K-i) * 100 * time.Microsecond)
					case "near-far":
						if i%2 == 0 {
							tk.deadline = time.Now().Add(time.Hour + time.Duration(grng.intn(1000))*time.Second)
							tk.far = true
						} else {
							tk.deadline = time.Now().Add(time.Duration(grng.intn(20000)) * time.Microsecond)
						}
					case "waves":
						// a far-future task early on, then waves of near tasks submitted
						// after earlier ones have fired (the worker's heap is drained
						// only partly: the far task stays)
						if i%16 == 0 {
							tk.deadline = time.Now().Add(time.Hour + time.Duration(grng.intn(1000))*time.Second)
							tk.far = true
						} else {
							if i%8 == 1 {
								time.Sleep(time.Duration(5+grng.intn(25)) * time.Millisecond)
							}
							tk.deadline = time.Now().Add(time.Duration(1000+grng.intn(9000)) * time.Microsecond)
						}
					default:
						tk.deadline = time.Now().Add(time.Duration(grng.intn(200000)-20000) * time.Microsecond)
					}
					if !tk.far {
						for {
							d := tk.deadline.Sub(start).Nanoseconds()
							old := maxDeadline.Load()
							if d <= old || maxDeadline.CompareAndSwap(old, d) {
								break
							}
						}
					}
					tasks[g][i] = tk
					ts.Put(func() {
						now := time.Now()
						if now.Before(tk.deadline) {
							tk.early.Store(true)
						}
						tk.ranAt.CompareAndSwap(0, now.Sub(start).Nanoseconds()+1)
						tk.count.Add(1)
					}, tk.deadline)
					tk.putAt = time.Since(start).Nanoseconds()
					if grng.intn(16) == 0 {
						time.Sleep(time.Duration(grng.intn(300)) * time.Microsecond)
					}
				}
			}(g)
		}
		wg.Wait()
		// control timer for the last near deadline
		lastDeadline := start.Add(time.Duration(maxDeadline.Load()))
		var controlLate atomic.Int64
		controlLate.Store(-1)
		ctl := time.AfterFunc(time.Until(lastDeadline), func() { controlLate.Store(int64(time.Since(lastDeadline))) })
		// wait until every near task ran, at most 10 s beyond the last deadline
		pendingNear := func() int {
			n := 0
			for g := range tasks {
				for _, tk := range tasks[g] {
					if !tk.far && tk.count.Load() == 0 {
						n++
					}
				}
			}
			return n
		}
		giveUp := lastDeadline.Add(10 * time.Second)
		for pendingNear() > 0 && time.Now().Before(giveUp) {
			time.Sleep(2 * time.Millisecond)
		}
		missing := pendingNear()
		time.Sleep(20 * time.Millisecond) // grace: a second execution would show up here
		ctl.Stop()
		// verdicts
		var nTasks, nFar, nearSimultaneous int64
		var maxLate time.Duration
		for g := range tasks {
			for _, tk := range tasks[g] {
				nTasks++
				c := tk.count.Load()
				if tk.far {
					nFar++
					if c != 0 {
						rec.violationf(desc, "C17 task ran before its deadline", "a task due in more than an hour ran %d time(s)", c)
					}
					continue
				}
				if c > 1 {
					rec.violationf(desc, "C17 task ran more than once", "count=%d deadline=+%v", c, tk.deadline.Sub(start))
				}
				if tk.early.Load() {
					rec.violationf(desc, "C17 task ran before its deadline", "deadline=+%v ran at +%v", tk.deadline.Sub(start), time.Duration(tk.ranAt.Load()))
				}
				if c >= 1 {
					ref := tk.deadline.Sub(start).Nanoseconds()
					if tk.putAt > ref {
						ref = tk.putAt
					}
					late := time.Duration(tk.ranAt.Load() - ref)
					if late > maxLate {
						maxLate = late
					}
					if d := tk.putAt - tk.deadline.Sub(start).Nanoseconds(); d > -50000 && d < 50000 {
						nearSimultaneous++
					}
					b := "lateness<1ms"
					switch {
					case late >= time.Second:
						b = "lateness>=1s"
					case late >= 100*time.Millisecond:
						b = "lateness<1s"
					case late >= 10*time.Millisecond:
						b = "lateness<100ms"
					case late >= time.Millisecond:
						b = "lateness<10ms"
					}
					rec.count(b, 1)
				}
			}
		}
		cl := time.Duration(controlLate.Load())
		if missing > 0 {
			if controlLate.Load() >= 0 && cl < time.Second {
				rec.violationf(desc, "C17 task never ran", "%d of %d near tasks had not run 10 s after the last deadline although a control timer armed for that instant fired %v late", missing, nTasks-nFar, cl)
			} else {
				rec.inconcl(fmt.Sprintf("round %d: %d tasks pending but the control timer itself was late (%v): machine stalled", idx, missing, cl))
			}
		} else if maxLate > 5*time.Second {
			if controlLate.Load() >= 0 && cl < time.Second {
				rec.violationf(desc, "C17 task ran late", "max lateness %v while the control timer was %v late", maxLate, cl)
			} else {
				rec.inconcl(fmt.Sprintf("round %d: lateness %v with a late control timer", idx, maxLate))
			}
		}
		// (e) Close: tasks still pending may or may not run, never twice
		var after []*schedTask
		for i := 0; i < 50; i++ {
			tk := &schedTask{deadline: time.Now().Add(time.Duration(rng.intn(4000)) * time.Microsecond)}
			after = append(after, tk)
			ts.Put(func() { tk.count.Add(1) }, tk.deadline)
		}
		time.Sleep(time.Duration(rng.intn(3000)) * time.Microsecond)
		ts.Close()
		ts.Close()
		ts.Put(func() {}, time.Now()) // must not panic or block
		time.Sleep(10 * time.Millisecond)
		for _, tk := range after {
			if tk.count.Load() > 1 {
				rec.violationf(desc, "C17 task ran more than once", "task submitted just before Close ran %d times", tk.count.Load())
			}
		}
		rec.eval(nTasks)
		rec.count("tasks_submitted", nTasks)
		rec.count("far_future_tasks", nFar)
		rec.count("put_within_50us_of_deadline", nearSimultaneous)
		rec.count("rounds", 1)
		rec.maxCount("max_lateness_us", int64(maxLate/time.Microsecond))
		rec.nontrivial(hashAny(desc))
		rec.sample("round", 3, desc)
	}
	for i := 6; i <= 7; i++ {
		rec.count(fmt.Sprintf("yield_point_%d_reached", i), yieldCounts[i].Load())
	}
}
