//go:build verif

package kcp

import (
	"testing"
	"testing/synctest"
)

// session-level part of C01: real UDPSession pairs over simnet, both
// directions at once, across the configuration matrix and fate profiles.
func c01SessionPart(t *testing.T, rec *vrec, caseIdx *int64) {
	env := rec.env
	n := env.pickN(160, 4000)
	for q := 0; q < n; q++ {
		idx := *caseIdx
		*caseIdx++
		if !env.mine(idx) {
			continue
		}
		rng := rec.seed(uint64(idx), 101)
		sc := genSessScenario(rng, idx, "session")
		// covering sample: every cipher and every FEC class at least once
		sc.Link.Cipher = cipherNames[q%len(cipherNames)]
		// the deprecated SetDUP knob (dialled side, before traffic: see c15.go)
		sc.CfgC.Dup = pick(rng, []int{0, 0, 0, 1, 2, 3})
		for _, c := range []*sessCfg{&sc.CfgC, &sc.CfgS} {
			if c.Mtu != 0 && c.Mtu < sc.Link.overhead()+IKCP_OVERHEAD+30 {
				c.Mtu = 0
			}
		}
		rec.beginCase(sc)
		synctest.Test(t, func(t *testing.T) {
			res := runSessScenario(t, rec, &sc, rng, nil)
			res.tally(rec)
			rec.eval(1)
			if !res.completed {
				d := ""
				for _, x := range res.xs {
					d += x.progress() + " "
				}
				if res.client != nil {
					d += "client: " + sessProgress(res.client)
				}
				if res.server != nil {
					d += " server: " + sessProgress(res.server)
				}
				rec.violation("C02 transfer did not complete within the virtual-time limit", d, sc)
			}
			if res.nontrivial {
				rec.nontrivial(hashAny(sc))
			}
			if res.fecRecovered > 0 {
				rec.count("session_scenarios_with_fec_recovery", 1)
			}
		})
		rec.sample("session", 3, sessBrief(&sc))
	}
}

