//go:build verif

package kcp

import "testing"

// placeholders until the session engine is in place
func c01SessionPart(t *testing.T, rec *vrec, caseIdx *int64) {}
func c04SessionPart(t *testing.T, rec *vrec, caseIdx *int64) {}
func c03SessionPart(t *testing.T, rec *vrec, caseIdx *int64) {}
func c18SessionPart(t *testing.T, rec *vrec, caseIdx *int64) {}
