//go:build verif

package kcp

// wiredec: an independent decoder of the documented wire format, written from
// README.md (§ frame layout) and the property text; it does not call the
// package's parsers. One wireFlow follows the datagrams of one sender.

import (
	"bytes"
	"crypto/aes"
	"crypto/cipher"
	"encoding/binary"
	"fmt"
	"hash/crc32"
	"sort"
	"sync"

	"github.com/klauspost/reedsolomon"
)

type wireCfg struct {
	name   string
	spec   *cipherSpec // nil: no cipher configured
	key    []byte
	fec    bool
	d, p   int
	conv   uint32
	mtu    func() int // MTU in force for this sender right now
	stream uint64     // content stream written by this sender (0: no reassembly check)
	// fecStart: the first sequence id the sender's encoder uses (0 unless the
	// scenario placed it near the wrap)
	fecStart uint32
	// cleanUntilMs > 0: until this virtual time the network neither loses nor
	// reorders (used to measure uninterrupted runs for C16)
	cleanUntilMs int64
	// dup: the sender was told (SetDUP) to emit every data datagram 1+dup times
	dup int
}

type wgroup struct {
	data    map[int][]byte // position -> packet bytes from the FEC header's payload part (size + payload)
	parity  map[int][]byte
	firstMs int64 // emission time (+1) of the first packet of the group seen
}

type wireFlow struct {
	mu   sync.Mutex
	cfg  wireCfg
	ref  *refCrypt
	gcm  cipher.AEAD
	viol func(key, detail string)

	seenDgram map[uint64]int
	dupSeen   map[uint64]int
	nDupCopies int64
	seenNonce map[string]struct{}
	seenSeq   map[uint32]struct{}
	groups    map[uint32]*wgroup
	segs      map[uint32][]byte
	frgs      map[uint32]uint8
	oobs      [][]byte

	nDgram, nPush, nAck, nWask, nWins, nData, nParity, nOOB, nRetrans int64
	nGroupsVerified, nGroupsNoParity, nGroupsPartial                  int64
	maxLen                                                            int
	minSeq, maxSeq                                                    uint32
	reported                                                          map[string]bool
	lastSeq                                                           uint32
	runLen, maxRun                                                    int
	shrinkAtMs                                                        int64 // time of the last accepted MTU shrink (0: none)
	lastWasMixedParity                                                bool
	lastKind                                                          string
	lastGroupFirstMs                                                  int64
	oversizeLen, oversizeMtu                                          int
}

func newWireFlow(cfg wireCfg, viol func(key, detail string)) *wireFlow {
	f := &wireFlow{cfg: cfg, viol: viol, seenDgram: map[uint64]int{}, seenNonce: map[string]struct{}{}, seenSeq: map[uint32]struct{}{},
		groups: map[uint32]*wgroup{}, segs: map[uint32][]byte{}, frgs: map[uint32]uint8{}, reported: map[string]bool{}}
	if cfg.spec != nil {
		if cfg.spec.kind == "aead" {
			blk, _ := aes.NewCipher(cfg.key)
			f.gcm, _ = cipher.NewGCM(blk)
		} else {
			f.ref, _ = newRefCrypt(*cfg.spec, cfg.key)
		}
	}
	return f
}

func (f *wireFlow) bad(key, format string, args ...any) {
	// the first few of each class are enough
	if f.reported[key] {
		return
	}
	f.reported[key] = true
	f.viol(key, "sender "+f.cfg.name+": "+fmt.Sprintf(format, args...))
}

// observe decodes one datagram handed to the PacketConn.
func (f *wireFlow) observe(data []byte, nowMs int64) {
	f.mu.Lock()
	defer f.mu.Unlock()
	if f.cfg.dup > 0 {
		// the copies SetDUP asked for follow their original: they are not decoded again
		if f.dupSeen == nil {
			f.dupSeen = map[uint64]int{}
		}
		h := hashBytes(data)
		if c := f.dupSeen[h]; c > 0 && c <= f.cfg.dup {
			f.dupSeen[h]++
			f.nDupCopies++
			return
		}
		f.dupSeen[h] = 1
	}
	f.nDgram++
	if len(data) > f.maxLen {
		f.maxLen = len(data)
	}
	oversize := false
	if m := f.cfg.mtu(); len(data) > m || len(data) > 1500 {
		oversize = true
		f.oversizeLen, f.oversizeMtu = len(data), m
	}
	defer func() {
		if !oversize {
			return
		}
		// classified after decoding: parity of a group that was begun before an
		// accepted shrink of the MTU is a separate (known) class
		if f.lastWasMixedParity {
			f.bad("C10 parity of an FEC group begun before SetMtu shrank the MTU is longer than the new MTU", "parity datagram of %d bytes, MTU in force %d, group's first data packet sent at %d ms, MTU shrunk at %d ms", f.oversizeLen, f.oversizeMtu, f.lastGroupFirstMs, f.shrinkAtMs)
		} else {
			f.bad("C10 datagram larger than the configured MTU", "datagram of %d bytes, MTU in force %d (%s)", f.oversizeLen, f.oversizeMtu, f.lastKind)
		}
	}()
	f.lastWasMixedParity = false
	f.lastKind = "undecoded"
	if len(data) == 0 {
		f.bad("C10 empty datagram handed to the PacketConn", "")
		return
	}
	rest := data
	if f.cfg.spec != nil {
		h := hashBytes(data)
		f.seenDgram[h]++
		if f.seenDgram[h] > 1 {
			f.bad("C09 two identical datagrams emitted under a cipher", "a datagram of %d bytes was emitted %d times", len(data), f.seenDgram[h])
		}
		if f.gcm != nil {
			ns := f.gcm.NonceSize()
			if len(data) < ns+f.gcm.Overhead() {
				f.bad("C09 datagram too short for AEAD nonce and tag", "%d bytes", len(data))
				return
			}
			nonce := string(data[:ns])
			if _, dup := f.seenNonce[nonce]; dup {
				f.bad("C09 nonce repeated", "AEAD nonce %x used twice", data[:ns])
			}
			f.seenNonce[nonce] = struct{}{}
			pt, err := f.gcm.Open(nil, data[:ns], data[ns:], nil)
			if err != nil {
				f.bad("C09 AEAD tag of an emitted datagram does not verify", "%d bytes: %v", len(data), err)
				return
			}
			rest = pt
		} else {
			if len(data) < 20 {
				f.bad("C09 datagram too short for nonce and CRC32", "%d bytes", len(data))
				return
			}
			pt := f.ref.decrypt(data)
			nonce := string(pt[:16])
			if _, dup := f.seenNonce[nonce]; dup {
				f.bad("C09 nonce repeated", "16-byte nonce %x used twice", pt[:16])
			}
			f.seenNonce[nonce] = struct{}{}
			want := binary.LittleEndian.Uint32(pt[16:20])
			if got := crc32.ChecksumIEEE(pt[20:]); got != want {
				what := ""
				if isPoison(pt[20:]) {
					what = " (payload is pool-sanitizer poison: use after recycle)"
				}
				f.bad("C09 CRC32 of an emitted datagram does not cover the bytes after the CRC field", "stored %#x, computed over the rest %#x, %d bytes%s", want, got, len(data), what)
				return
			}
			rest = pt[20:]
		}
	}
	if f.cfg.fec {
		if len(rest) < 8 {
			f.bad("C09 FEC packet shorter than its header", "%d bytes after the cipher layer", len(rest))
			return
		}
		seqid := binary.LittleEndian.Uint32(rest)
		typ := binary.LittleEndian.Uint16(rest[4:])
		size := int(binary.LittleEndian.Uint16(rest[6:]))
		n := f.cfg.d + f.cfg.p
		paws := uint32(0xffffffff) / uint32(n) * uint32(n)
		switch typ {
		case 0xf1, 0xf2:
			if seqid >= paws {
				f.bad("C09 FEC sequence id outside its range", "seqid %d >= wrap value %d", seqid, paws)
			}
			pos := int(seqid % uint32(n))
			wantTyp := uint16(0xf1)
			if pos >= f.cfg.d {
				wantTyp = 0xf2
			}
			if typ != wantTyp {
				f.bad("C09 FEC packet type does not match its sequence id's position in the data/parity cycle", "seqid %d is position %d of %d+%d, type %#x", seqid, pos, f.cfg.d, f.cfg.p, typ)
			}
			if _, dup := f.seenSeq[seqid]; dup {
				f.bad("C09 FEC sequence id repeated within a wrap period", "seqid %d", seqid)
			}
			f.seenSeq[seqid] = struct{}{}
			// longest run of consecutive ids emitted while the network is clean
			if f.cfg.cleanUntilMs > 0 && nowMs < f.cfg.cleanUntilMs {
				if f.runLen > 0 && seqid == f.lastSeq+1 {
					f.runLen++
				} else {
					f.runLen = 1
				}
				f.lastSeq = seqid
				if f.runLen > f.maxRun {
					f.maxRun = f.runLen
				}
			}
			base := seqid - uint32(pos)
			g := f.groups[base]
			if g == nil {
				g = &wgroup{data: map[int][]byte{}, parity: map[int][]byte{}}
				f.groups[base] = g
			}
			if g.firstMs == 0 {
				g.firstMs = nowMs + 1
			}
			if typ == 0xf1 {
				f.lastKind = fmt.Sprintf("FEC data seqid %d", seqid)
				f.nData++
				if size != len(rest)-6 {
					f.bad("C09 FEC size field is not payload+2", "data packet seqid %d: size field %d, %d bytes follow the 6-byte header", seqid, size, len(rest)-6)
				}
				g.data[pos] = append([]byte(nil), rest[6:]...)
				f.kcpLayer(rest[8:])
			} else {
				f.lastKind = fmt.Sprintf("FEC parity seqid %d", seqid)
				f.nParity++
				g.parity[pos-f.cfg.d] = append([]byte(nil), rest[6:]...)
				f.lastGroupFirstMs = g.firstMs - 1
				if f.shrinkAtMs > 0 && g.firstMs-1 <= f.shrinkAtMs {
					f.lastWasMixedParity = true
				}
			}
		case 0xf3:
			f.lastKind = "out-of-band"
			f.nOOB++
			if seqid != 0xffffffff {
				f.bad("C09 out-of-band packet does not use the reserved sequence id", "seqid %d", seqid)
			}
			if size != len(rest)-6 {
				f.bad("C09 FEC size field is not payload+2", "out-of-band packet: size field %d, %d bytes follow the 6-byte header", size, len(rest)-6)
			}
			if len(rest) < 12 {
				f.bad("C09 out-of-band packet shorter than its conversation id", "%d bytes", len(rest))
				return
			}
			if c := binary.LittleEndian.Uint32(rest[8:]); c != f.cfg.conv {
				f.bad("C09 out-of-band packet carries a wrong conversation id", "%#x, session %#x", c, f.cfg.conv)
			}
			f.oobs = append(f.oobs, append([]byte(nil), rest[12:]...))
		default:
			f.bad("C09 FEC packet with an unknown type", "type %#x seqid %d", typ, seqid)
		}
		return
	}
	f.lastKind = "KCP without FEC"
	f.kcpLayer(rest)
}

func (f *wireFlow) kcpLayer(b []byte) {
	segs, perr := parseKCP(b)
	if perr != "" || len(segs) == 0 {
		what := ""
		if isPoison(b) {
			what = " (bytes are pool-sanitizer poison: use after recycle)"
		}
		f.bad("C09 datagram payload is not a sequence of 24-byte KCP headers each followed by len bytes", "%d bytes: %s%s", len(b), perr, what)
		return
	}
	for _, sg := range segs {
		if sg.conv != f.cfg.conv {
			f.bad("C09 segment with a foreign conversation id", "%#x, session %#x", sg.conv, f.cfg.conv)
		}
		switch sg.cmd {
		case IKCP_CMD_PUSH:
			f.nPush++
			if old, ok := f.segs[sg.sn]; ok {
				f.nRetrans++
				if !bytes.Equal(old, sg.data) || f.frgs[sg.sn] != sg.frg {
					f.bad("C09 retransmission of a segment carries different data", "sn %d: %d vs %d bytes", sg.sn, len(old), len(sg.data))
				}
			} else {
				f.segs[sg.sn] = append([]byte(nil), sg.data...)
				f.frgs[sg.sn] = sg.frg
			}
		case IKCP_CMD_ACK:
			f.nAck++
		case IKCP_CMD_WASK:
			f.nWask++
		case IKCP_CMD_WINS:
			f.nWins++
		default:
			f.bad("C09 segment with an unknown cmd", "cmd %d", sg.cmd)
		}
	}
}

// finish runs the end-of-run checks: parity is the Reed-Solomon code of the
// group's zero-padded size-prefixed payloads; the stream reassembled from PUSH
// segments alone equals what the writer wrote. writtenBytes is how much the
// application had handed to Write calls that returned.
func (f *wireFlow) finish(writtenBytes uint64, transferComplete bool) {
	f.mu.Lock()
	defer f.mu.Unlock()
	if f.cfg.fec {
		enc, err := reedsolomon.New(f.cfg.d, f.cfg.p)
		if err == nil {
			for base, g := range f.groups {
				if len(g.data) != f.cfg.d {
					continue // group not complete on the wire (run ended inside it)
				}
				if len(g.parity) == 0 {
					f.nGroupsNoParity++
					continue
				}
				if len(g.parity) != f.cfg.p {
					f.nGroupsPartial++ // run ended (or the socket failed) inside the group's parity
					continue
				}
				maxlen := 0
				for _, d := range g.data {
					if len(d) > maxlen {
						maxlen = len(d)
					}
				}
				shards := make([][]byte, f.cfg.d+f.cfg.p)
				okLen := true
				for k := 0; k < f.cfg.d; k++ {
					shards[k] = make([]byte, maxlen)
					copy(shards[k], g.data[k])
				}
				for k := 0; k < f.cfg.p; k++ {
					if len(g.parity[k]) != maxlen {
						f.bad("C09 parity length is not the length of the group's longest data packet", "group at %d: parity %d has %d bytes, longest data packet %d", base, k, len(g.parity[k]), maxlen)
						okLen = false
						break
					}
					shards[f.cfg.d+k] = g.parity[k]
				}
				if !okLen {
					continue
				}
				if ok, _ := enc.Verify(shards); !ok {
					f.bad("C09 parity is not the Reed-Solomon code of the group's zero-padded size-prefixed payloads", "group at %d (%d+%d), longest packet %d", base, f.cfg.d, f.cfg.p, maxlen)
				}
				f.nGroupsVerified++
			}
		}
	}
	if f.cfg.stream != 0 {
		// reassemble by sn from 0
		var off uint64
		sns := make([]uint32, 0, len(f.segs))
		for sn := range f.segs {
			sns = append(sns, sn)
		}
		sort.Slice(sns, func(i, j int) bool { return sns[i] < sns[j] })
		next := uint32(0)
		for _, sn := range sns {
			if sn != next {
				break
			}
			d := f.segs[sn]
			if i := checkContent(f.cfg.stream, off, d); i >= 0 {
				what := ""
				if isPoison(d[i:]) {
					what = " (pool-sanitizer poison: use after recycle)"
				}
				f.bad("C09 stream reassembled from the wire differs from what was written", "segment sn %d (stream offset %d): byte %d differs%s", sn, off, i, what)
				break
			}
			off += uint64(len(d))
			next++
		}
		if transferComplete && off < writtenBytes {
			f.bad("C09 stream reassembled from the wire is shorter than what was written and delivered", "%d bytes in contiguous PUSH segments from sn 0, %d bytes written", off, writtenBytes)
		}
	}
}

func (f *wireFlow) tally(rec *vrec) {
	f.mu.Lock()
	defer f.mu.Unlock()
	rec.count("wire_datagrams_decoded", f.nDgram)
	rec.count("wire_push_segments", f.nPush)
	rec.count("wire_push_retransmissions", f.nRetrans)
	rec.count("wire_ack_segments", f.nAck)
	rec.count("wire_wask_segments", f.nWask)
	rec.count("wire_wins_segments", f.nWins)
	rec.count("wire_fec_data_packets", f.nData)
	rec.count("wire_fec_parity_packets", f.nParity)
	rec.count("wire_oob_packets", f.nOOB)
	rec.count("wire_fec_groups_parity_verified", f.nGroupsVerified)
	rec.count("wire_fec_groups_parity_skipped", f.nGroupsNoParity)
	rec.count("wire_fec_groups_parity_partly_seen", f.nGroupsPartial)
	rec.count("wire_distinct_nonces", int64(len(f.seenNonce)))
	rec.maxCount("wire_max_datagram_len", int64(f.maxLen))
}

// kindOfLast is the decoder's classification of the datagram observed last.
func (f *wireFlow) kindOfLast() string {
	f.mu.Lock()
	defer f.mu.Unlock()
	return f.lastKind
}

func (f *wireFlow) longestRun() int {
	f.mu.Lock()
	defer f.mu.Unlock()
	return f.maxRun
}

// noteShrink tells the flow that the sender's MTU was just reduced.
func (f *wireFlow) noteShrink(nowMs int64) {
	f.mu.Lock()
	f.shrinkAtMs = nowMs + 1
	f.mu.Unlock()
}
