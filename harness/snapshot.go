//go:build verif

package kcp

// snapshot: a reflective deep walk of session / core / FEC decoder / listener
// state into a canonical text, by value (pointers are followed, addresses are
// not recorded). Used by the "no effect at all" oracles at quiescent points.

import (
	"fmt"
	"reflect"
	"sort"
	"strings"
	"unsafe"
)

// fields (by "Type.field") that are not protocol state: synchronisation,
// callbacks, the transport, scratch buffers, and state that packets can never
// influence.
var snapSkip = map[string]bool{
	"UDPSession.conn": true, "UDPSession.l": true, "UDPSession.block": true, "UDPSession.die": true,
	"UDPSession.dieOnce": true, "UDPSession.chReadEvent": true, "UDPSession.chWriteEvent": true,
	"UDPSession.socketReadError": true, "UDPSession.socketWriteError": true, "UDPSession.chSocketReadError": true,
	"UDPSession.chSocketWriteError": true, "UDPSession.socketReadErrorOnce": true, "UDPSession.socketWriteErrorOnce": true,
	"UDPSession.chPostProcessing": true, "UDPSession.platform": true, "UDPSession.rateLimiter": true, "UDPSession.mu": true,
	"UDPSession.callbackForOOB": true, "UDPSession.rd": true, "UDPSession.wd": true, "UDPSession.remote": true,
	"UDPSession.fecEncoder": true, "UDPSession.recvbuf": true,
	"KCP.buffer": true, "KCP.output": true, "KCP.log": true,
	"fecDecoder.codec": true, "fecDecoder.decodeCache": true, "fecDecoder.flagCache": true,
	"autoTune.sortCache": true,
	"segmentHeap.marks":  true, "shardHeap.marks": true,
}

func snapshotOf(v any) string {
	var sb strings.Builder
	snapWalk(&sb, reflect.ValueOf(v), 0, map[uintptr]bool{})
	return sb.String()
}

func snapWalk(sb *strings.Builder, v reflect.Value, depth int, seen map[uintptr]bool) {
	if depth > 12 {
		sb.WriteString("<deep>")
		return
	}
	if v.IsValid() && v.CanAddr() && !v.CanInterface() {
		// read unexported fields through their address
		v = reflect.NewAt(v.Type(), unsafe.Pointer(v.UnsafeAddr())).Elem()
	}
	switch v.Kind() {
	case reflect.Invalid:
		sb.WriteString("nil")
	case reflect.Bool:
		fmt.Fprint(sb, v.Bool())
	case reflect.Int, reflect.Int8, reflect.Int16, reflect.Int32, reflect.Int64:
		fmt.Fprint(sb, v.Int())
	case reflect.Uint, reflect.Uint8, reflect.Uint16, reflect.Uint32, reflect.Uint64, reflect.Uintptr:
		fmt.Fprint(sb, v.Uint())
	case reflect.String:
		fmt.Fprintf(sb, "%q", v.String())
	case reflect.Pointer:
		if v.IsNil() {
			sb.WriteString("nil")
			return
		}
		p := v.Pointer()
		if seen[p] && v.Elem().Kind() == reflect.Struct {
			sb.WriteString("<cycle>")
			return
		}
		seen[p] = true
		sb.WriteString("&")
		snapWalk(sb, v.Elem(), depth+1, seen)
		delete(seen, p)
	case reflect.Struct:
		t := v.Type()
		sb.WriteString(t.Name())
		sb.WriteString("{")
		for i := 0; i < t.NumField(); i++ {
			f := t.Field(i)
			if snapSkip[t.Name()+"."+f.Name] {
				continue
			}
			switch f.Type.Kind() {
			case reflect.Chan, reflect.Func, reflect.UnsafePointer, reflect.Interface:
				continue
			}
			sb.WriteString(f.Name)
			sb.WriteString(":")
			snapWalk(sb, v.Field(i), depth+1, seen)
			sb.WriteString(" ")
		}
		sb.WriteString("}")
	case reflect.Slice:
		if v.Type().Elem().Kind() == reflect.Uint8 {
			b := v.Bytes()
			fmt.Fprintf(sb, "bytes[%d]%x", len(b), hashBytes(b))
			return
		}
		fmt.Fprintf(sb, "[%d:", v.Len())
		for i := 0; i < v.Len(); i++ {
			snapWalk(sb, v.Index(i), depth+1, seen)
			sb.WriteString(",")
		}
		sb.WriteString("]")
	case reflect.Array:
		if v.Type().Elem().Kind() == reflect.Struct && v.Len() > 64 {
			// large fixed arrays (autotune ring): hash the rendering
			var inner strings.Builder
			for i := 0; i < v.Len(); i++ {
				snapWalk(&inner, v.Index(i), depth+1, seen)
				inner.WriteString(",")
			}
			fmt.Fprintf(sb, "array[%d]%x", v.Len(), hashBytes([]byte(inner.String())))
			return
		}
		sb.WriteString("[")
		for i := 0; i < v.Len(); i++ {
			snapWalk(sb, v.Index(i), depth+1, seen)
			sb.WriteString(",")
		}
		sb.WriteString("]")
	case reflect.Map:
		keys := v.MapKeys()
		strs := make([]string, len(keys))
		for i, k := range keys {
			var kb, vb strings.Builder
			snapWalk(&kb, k, depth+1, seen)
			snapWalk(&vb, v.MapIndex(k), depth+1, seen)
			strs[i] = kb.String() + "=>" + vb.String()
		}
		sort.Strings(strs)
		sb.WriteString("map{" + strings.Join(strs, ";") + "}")
	default:
		sb.WriteString("<" + v.Kind().String() + ">")
	}
}

// sessionSnapshot renders everything a received datagram could change in a
// session, under the session's own lock.
func sessionSnapshot(s *UDPSession) string {
	s.mu.Lock()
	defer s.mu.Unlock()
	return snapshotOf(s) + fmt.Sprintf(" bufptr[%d]%x readEvent=%d writeEvent=%d", len(s.bufptr), hashBytes(s.bufptr), len(s.chReadEvent), len(s.chWriteEvent))
}

// listenerSnapshot renders the session table and the accept backlog.
func listenerSnapshot(l *Listener) string {
	l.sessionLock.RLock()
	keys := make([]string, 0, len(l.sessions))
	for k, s := range l.sessions {
		keys = append(keys, fmt.Sprintf("%s:%#x", k, s.kcp.conv))
	}
	l.sessionLock.RUnlock()
	sort.Strings(keys)
	return fmt.Sprintf("sessions=%v backlog=%d", keys, len(l.chAccepts))
}

func snapDiff(a, b string) string {
	i := 0
	for i < len(a) && i < len(b) && a[i] == b[i] {
		i++
	}
	lo := max(0, i-120)
	return fmt.Sprintf("before …%s | after …%s", a[lo:min(len(a), i+80)], b[lo:min(len(b), i+80)])
}
