//go:build verif

package kcp

// Shared plumbing of the verification harness: environment, seeded PRNG,
// result recorder (cases.log / result.json), content oracle.
//
// This file is overlaid into /repo as zzverif_common_test.go by ./check.

import (
	"sync/atomic"
	"encoding/binary"
	"encoding/json"
	"fmt"
	"hash/fnv"
	"os"
	"path/filepath"
	"regexp"
	"runtime"
	"sort"
	"strconv"
	"strings"
	"sync"
	"testing"
	"time"
)

// ---------------------------------------------------------------------------
// environment

type venv struct {
	seed     uint64
	tier     string // quick | thorough
	shard    int
	nshards  int
	outDir   string
	onlyCase int64 // >=0: replay just this case index
}

func loadEnv() venv {
	e := venv{seed: 1, tier: "quick", shard: 0, nshards: 1, outDir: "", onlyCase: -1}
	if s := os.Getenv("VERIF_SEED"); s != "" {
		if v, err := strconv.ParseInt(s, 10, 64); err == nil {
			e.seed = uint64(v)
		}
	}
	if s := os.Getenv("VERIF_TIER"); s == "thorough" {
		e.tier = s
	}
	if s := os.Getenv("VERIF_SHARD"); s != "" {
		var i, n int
		if _, err := fmt.Sscanf(s, "%d/%d", &i, &n); err == nil && n > 0 && i >= 0 && i < n {
			e.shard, e.nshards = i, n
		}
	}
	e.outDir = os.Getenv("VERIF_OUT")
	if s := os.Getenv("VERIF_ONLY_CASE"); s != "" {
		if v, err := strconv.ParseInt(s, 10, 64); err == nil {
			e.onlyCase = v
		}
	}
	return e
}

func (e venv) thorough() bool { return e.tier == "thorough" }

// pickN returns q for the quick tier and t for the thorough tier.
func (e venv) pickN(q, t int) int {
	if e.thorough() {
		return t
	}
	return q
}

// mine reports whether case index i belongs to this shard (and to the replay
// selection, if any).
func (e venv) mine(i int64) bool {
	if e.onlyCase >= 0 {
		return i == e.onlyCase
	}
	return int(i%int64(e.nshards)) == e.shard
}

// ---------------------------------------------------------------------------
// PRNG: splitmix64. Every random choice of the harness comes from one of these,
// seeded from (VERIF_SEED, property, case index, purpose).

type vrng struct{ s uint64 }

func mix64(z uint64) uint64 {
	z += 0x9e3779b97f4a7c15
	z = (z ^ (z >> 30)) * 0xbf58476d1ce4e5b9
	z = (z ^ (z >> 27)) * 0x94d049bb133111eb
	return z ^ (z >> 31)
}

func hashStr(s string) uint64 {
	h := fnv.New64a()
	h.Write([]byte(s))
	return h.Sum64()
}

func newRng(parts ...uint64) *vrng {
	s := uint64(0x243f6a8885a308d3)
	for _, p := range parts {
		s = mix64(s ^ mix64(p))
	}
	return &vrng{s}
}

func (r *vrng) u64() uint64 {
	r.s += 0x9e3779b97f4a7c15
	z := r.s
	z = (z ^ (z >> 30)) * 0xbf58476d1ce4e5b9
	z = (z ^ (z >> 27)) * 0x94d049bb133111eb
	return z ^ (z >> 31)
}
func (r *vrng) u32() uint32 { return uint32(r.u64() >> 32) }
func (r *vrng) intn(n int) int {
	if n <= 1 {
		return 0
	}
	return int(r.u64() % uint64(n))
}

// between returns a value in [lo, hi] inclusive.
func (r *vrng) between(lo, hi int) int {
	if hi <= lo {
		return lo
	}
	return lo + r.intn(hi-lo+1)
}
func (r *vrng) float() float64        { return float64(r.u64()>>11) / float64(1<<53) }
func (r *vrng) chance(p float64) bool { return r.float() < p }
func (r *vrng) bytes(n int) []byte {
	b := make([]byte, n)
	r.fill(b)
	return b
}
func (r *vrng) fill(b []byte) {
	i := 0
	for ; i+8 <= len(b); i += 8 {
		binary.LittleEndian.PutUint64(b[i:], r.u64())
	}
	if i < len(b) {
		v := r.u64()
		for ; i < len(b); i++ {
			b[i] = byte(v)
			v >>= 8
		}
	}
}
func (r *vrng) perm(n int) []int {
	p := make([]int, n)
	for i := range p {
		p[i] = i
	}
	for i := n - 1; i > 0; i-- {
		j := r.intn(i + 1)
		p[i], p[j] = p[j], p[i]
	}
	return p
}
func pick[T any](r *vrng, xs []T) T { return xs[r.intn(len(xs))] }

// ---------------------------------------------------------------------------
// content oracle: every byte a scenario writes is F(stream, offset).

func contentWord(stream, blk uint64) uint64 { return mix64(stream*0x100000001b3 ^ mix64(blk)) }

func fillContent(stream, off uint64, b []byte) {
	for i := 0; i < len(b); {
		o := off + uint64(i)
		w := contentWord(stream, o>>3)
		for k := o & 7; k < 8 && i < len(b); k++ {
			b[i] = byte(w >> (8 * k))
			i++
		}
	}
}

// checkContent returns the index of the first byte of b that differs from
// F(stream, off+i), or -1.
func checkContent(stream, off uint64, b []byte) int {
	for i := 0; i < len(b); {
		o := off + uint64(i)
		w := contentWord(stream, o>>3)
		for k := o & 7; k < 8 && i < len(b); k++ {
			if b[i] != byte(w>>(8*k)) {
				return i
			}
			i++
		}
	}
	return -1
}

// ---------------------------------------------------------------------------
// recorder

type vviolation struct {
	Key    string `json:"key"`    // canonical class, matched against KNOWN_FINDINGS.json
	Detail string `json:"detail"` // human readable witness
	Case   any    `json:"case"`   // replayable descriptor
}

type vrec struct {
	lastCase atomic.Value // json.RawMessage of the case logged last
	mu           sync.Mutex
	prop         string
	env          venv
	start        time.Time
	casesLog     *os.File
	evaluations  int64
	counters     map[string]int64
	distinct     map[uint64]struct{}
	samples      []any
	sampleKinds  map[string]int
	violations   []vviolation
	violKeys     map[string]int
	inconclusive []string
	notes        map[string]any
	alsoOwn      []string // monitors of these properties also decide this one (its statement includes them)
}

func newRec(t testing.TB, prop string) *vrec {
	r := &vrec{prop: prop, env: loadEnv(), start: time.Now(),
		counters: map[string]int64{}, distinct: map[uint64]struct{}{},
		sampleKinds: map[string]int{}, violKeys: map[string]int{}, notes: map[string]any{}}
	if r.env.outDir != "" {
		os.MkdirAll(r.env.outDir, 0o755)
		f, err := os.OpenFile(filepath.Join(r.env.outDir, "cases.log"), os.O_CREATE|os.O_WRONLY|os.O_TRUNC, 0o644)
		if err == nil {
			r.casesLog = f
		}
	}
	r.startLockWatch()
	return r
}

// ---------------------------------------------------------------------------
// Lock watch. A goroutine that waits for a sync.Mutex is not "durably blocked"
// for testing/synctest: if library code returns (or blocks) with a session or
// listener lock held, everybody else queues up behind it, the bubble's clock
// stands still, and no oracle ever runs. A goroutine started outside every
// bubble looks at the goroutine dump when nothing has moved for two minutes of
// real time; a goroutine that has been waiting for a lock *at a call site in
// library code* for two minutes or more is the evidence (healthy code holds
// these locks for microseconds).

var verifHeartbeat atomic.Int64 // cases begun, datagrams delivered, simulator events

var livenessProps = map[string]bool{"C02": true, "C03": true, "C11": true, "C13": true, "C15": true, "C19": true}

var lockWaitRe = regexp.MustCompile(`^goroutine (\d+) \[(sync\.(?:RW)?Mutex\.R?Lock)[^\]]*?(\d+) minutes[^\]]*\]:`)

// findLongLockWait returns the dump of the first goroutine that has waited two
// minutes or more for a lock whose Lock call is in library (not harness) code.
func findLongLockWait(dump string) string {
	for _, g := range strings.Split(dump, "\n\n") {
		m := lockWaitRe.FindStringSubmatch(g)
		if m == nil {
			continue
		}
		if mins, _ := strconv.Atoi(m[3]); mins < 2 {
			continue
		}
		lines := strings.Split(g, "\n")
		// frames: a function line followed by a "\t/path/file.go:NN" line
		for i := 1; i+1 < len(lines); i += 2 {
			fn := lines[i]
			if strings.HasPrefix(fn, "sync.") || strings.HasPrefix(fn, "internal/") || strings.HasPrefix(fn, "runtime.") {
				continue
			}
			// the caller of Lock
			if strings.HasPrefix(fn, "github.com/xtaci/kcp-go/v5.") && !strings.Contains(lines[i+1], "/zzverif_") {
				return g
			}
			break
		}
	}
	return ""
}

func (r *vrec) startLockWatch() {
	if r.env.outDir == "" {
		return
	}
	go func() {
		last, since := int64(-1), time.Now()
		for {
			time.Sleep(20 * time.Second)
			if hb := verifHeartbeat.Load(); hb != last {
				last, since = hb, time.Now()
				continue
			}
			if time.Since(since) < 125*time.Second {
				continue
			}
			buf := make([]byte, 64<<20)
			g := findLongLockWait(string(buf[:runtime.Stack(buf, true)]))
			since = time.Now()
			if g == "" {
				continue
			}
			if len(g) > 6000 {
				g = g[:6000]
			}
			var desc any
			if d, ok := r.lastCase.Load().(json.RawMessage); ok {
				desc = d
			}
			if livenessProps[r.prop] {
				r.violation(r.prop+" a library lock was never released: goroutines wait for it for ever", "nothing has moved for two minutes of real time and this goroutine has been waiting for a lock taken in library code all that time (inside a synctest bubble such a state also stops the virtual clock, so no other oracle can run):\n"+g, desc)
			} else {
				r.inconcl("frozen: a goroutine has been waiting for a library lock for minutes; the case cannot be decided by this check (the checks of C02/C03/C11/C13/C15/C19 report this state as a violation):\n" + g)
			}
			r.note("done", true)
			r.flush()
			os.Exit(0)
		}
	}()
}

func (r *vrec) seed(parts ...uint64) *vrng {
	return newRng(append([]uint64{r.env.seed, hashStr(r.prop)}, parts...)...)
}

// beginCase logs the descriptor of the case (or batch) about to run, so that a
// process death is attributed to it by the driver.
func (r *vrec) beginCase(desc any) {
	if r.casesLog == nil {
		return
	}
	b, _ := json.Marshal(desc)
	r.lastCase.Store(json.RawMessage(b))
	verifHeartbeat.Add(1)
	r.mu.Lock()
	r.casesLog.Write(append(b, '\n'))
	r.mu.Unlock()
}

func (r *vrec) eval(n int64) {
	r.mu.Lock()
	r.evaluations += n
	r.mu.Unlock()
}

func (r *vrec) count(key string, n int64) {
	r.mu.Lock()
	r.counters[key] += n
	r.mu.Unlock()
}

func (r *vrec) getCount(key string) int64 {
	r.mu.Lock()
	defer r.mu.Unlock()
	return r.counters[key]
}

func (r *vrec) maxCount(key string, v int64) {
	r.mu.Lock()
	if v > r.counters[key] {
		r.counters[key] = v
	}
	r.mu.Unlock()
}

// nontrivial records one distinct non-trivial case by the hash of its content.
func (r *vrec) nontrivial(h uint64) {
	r.mu.Lock()
	r.distinct[h] = struct{}{}
	r.mu.Unlock()
}

// sample keeps at most max samples per kind.
func (r *vrec) sample(kind string, max int, s any) {
	r.mu.Lock()
	if r.sampleKinds[kind] < max {
		r.sampleKinds[kind]++
		r.samples = append(r.samples, map[string]any{"kind": kind, "case": s})
	}
	r.mu.Unlock()
}

func (r *vrec) note(k string, v any) {
	r.mu.Lock()
	r.notes[k] = v
	r.mu.Unlock()
}

// violation records a property violation. Only the first few of each key keep
// their full detail.
func (r *vrec) violation(key, detail string, desc any) {
	for _, a := range r.alsoOwn {
		if strings.HasPrefix(key, a+" ") {
			key = r.prop + " [" + key + "]"
			break
		}
	}
	if !strings.HasPrefix(key, r.prop+" ") {
		// an always-on monitor of another property fired: that property's own
		// check reports it; here it is only counted
		r.mu.Lock()
		fk := "foreign_violation_observed " + key
		r.counters[fk]++
		if r.counters[fk] == 1 {
			r.notes["example of "+fk] = detail
		}
		r.mu.Unlock()
		return
	}
	r.mu.Lock()
	r.violKeys[key]++
	if r.violKeys[key] <= 3 && len(r.violations) < 200 {
		r.violations = append(r.violations, vviolation{key, detail, desc})
	}
	r.mu.Unlock()
	r.flush() // make it durable right away: the process may die next
}

func (r *vrec) violationf(desc any, key, format string, args ...any) {
	r.violation(key, fmt.Sprintf(format, args...), desc)
}

func (r *vrec) inconcl(s string) {
	r.mu.Lock()
	if len(r.inconclusive) < 50 {
		r.inconclusive = append(r.inconclusive, s)
	}
	r.counters["inconclusive"]++
	r.mu.Unlock()
}

func (r *vrec) nviol() int {
	r.mu.Lock()
	defer r.mu.Unlock()
	n := 0
	for _, c := range r.violKeys {
		n += c
	}
	return n
}

func (r *vrec) flush() {
	if r.env.outDir == "" {
		return
	}
	r.mu.Lock()
	hs := make([]uint64, 0, len(r.distinct))
	for h := range r.distinct {
		hs = append(hs, h)
	}
	sort.Slice(hs, func(i, j int) bool { return hs[i] < hs[j] })
	const maxHashes = 400000
	out := map[string]any{
		"property":        r.prop,
		"shard":           fmt.Sprintf("%d/%d", r.env.shard, r.env.nshards),
		"seed":            r.env.seed,
		"tier":            r.env.tier,
		"evaluations":     r.evaluations,
		"distinct_count":  len(hs),
		"counters":        r.counters,
		"samples":         r.samples,
		"violations":      r.violations,
		"violation_keys":  r.violKeys,
		"inconclusive":    r.inconclusive,
		"notes":           r.notes,
		"wall_s":          time.Since(r.start).Seconds(),
		"go":              runtime.Version(),
		"hashes_complete": len(hs) <= maxHashes,
	}
	if len(hs) <= maxHashes {
		strs := make([]string, len(hs))
		for i, h := range hs {
			strs[i] = strconv.FormatUint(h, 36)
		}
		out["hashes"] = strings.Join(strs, ",")
	}
	b, err := json.Marshal(out)
	r.mu.Unlock()
	if err != nil {
		b = []byte(fmt.Sprintf(`{"property":%q,"marshal_error":%q}`, r.prop, err.Error()))
	}
	tmp := filepath.Join(r.env.outDir, "result.json.tmp")
	if os.WriteFile(tmp, b, 0o644) == nil {
		os.Rename(tmp, filepath.Join(r.env.outDir, "result.json"))
	}
}

// finish writes result.json and marks completion; the driver treats a shard
// without "done" as dead (attributed to the last case in cases.log).
func (r *vrec) finish(t testing.TB) {
	if p := recover(); p != nil {
		r.flush() // no "done" mark: the driver attributes the death to the last case
		panic(p)
	}
	r.note("done", true)
	r.flush()
	if r.casesLog != nil {
		r.casesLog.Close()
	}
	if n := r.nviol(); n > 0 {
		t.Logf("%s: %d violation(s) recorded", r.prop, n)
	}
}

var digitsRe = regexp.MustCompile(`0x[0-9a-f]+|[0-9]+`)

// normKey strips numbers from a message so that it can serve as a class key.
func normKey(s string) string {
	if len(s) > 160 {
		s = s[:160]
	}
	return digitsRe.ReplaceAllString(s, "N")
}

// guard runs fn and turns a panic on the calling goroutine into a recorded
// violation (the run continues with the next case). Panics on library
// goroutines still end the process; the driver attributes those to the last
// case logged with beginCase.
func (r *vrec) guard(desc any, fn func()) (ok bool) {
	defer func() {
		if p := recover(); p != nil {
			if _, stop := p.(stopCase); stop {
				ok = false
				return // the case already recorded its violation
			}
			buf := make([]byte, 16384)
			n := runtime.Stack(buf, false)
			msg := fmt.Sprint(p)
			r.violation(r.prop+" panic: "+normKey(msg), msg+"\n"+string(buf[:n]), desc)
			ok = false
		}
	}()
	fn()
	return true
}

func hashBytes(parts ...[]byte) uint64 {
	h := fnv.New64a()
	for _, p := range parts {
		h.Write(p)
		h.Write([]byte{0xff})
	}
	return h.Sum64()
}

func hashAny(v any) uint64 {
	b, _ := json.Marshal(v)
	return hashBytes(b)
}
