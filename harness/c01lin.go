//go:build verif

package kcp

// C01, concurrent callers: 2-4 writer goroutines on one session and 2-4 reader
// goroutines on its peer, message mode, unique message ids. Every call and
// return is stamped from one atomic logical clock at the API boundary; the
// history is written to disk and checked offline (tools/lincheck, porcupine)
// against a FIFO queue: the channel must be linearizable as one queue of
// messages however callers and library goroutines interleave.

import (
	"encoding/binary"
	"encoding/json"
	"fmt"
	"os"
	"path/filepath"
	"sync"
	"sync/atomic"
	"testing"
	"testing/synctest"
	"time"
)

type linEvent struct {
	Client int    `json:"client"`
	Op     string `json:"op"`
	ID     int64  `json:"id"`
	Call   int64  `json:"call"`
	Return int64  `json:"ret"`
}

func TestVerifC01Lin(t *testing.T) {
	rec := newRec(t, "C01")
	defer rec.finish(t)
	env := rec.env
	var caseIdx int64 = 2 << 32
	// self-test of the history oracle on hand-made histories
	w := func(id, c, r int64) linEvent { return linEvent{0, "write", id, c, r} }
	rd := func(id, c, r int64) linEvent { return linEvent{100, "read", id, c, r} }
	for name, tc := range map[string]struct {
		h   []linEvent
		bad bool
	}{
		"in-order":            {[]linEvent{w(1, 1, 2), w(2, 3, 4), rd(1, 5, 6), rd(2, 7, 8)}, false},
		"concurrent-writes":   {[]linEvent{w(1, 1, 4), w(2, 2, 3), rd(2, 5, 6), rd(1, 7, 8)}, false},
		"concurrent-reads":    {[]linEvent{w(1, 1, 2), w(2, 3, 4), rd(2, 5, 8), rd(1, 6, 7)}, false},
		"reordered":           {[]linEvent{w(1, 1, 2), w(2, 3, 4), rd(2, 5, 6), rd(1, 7, 8)}, true},
		"duplicated":          {[]linEvent{w(1, 1, 2), rd(1, 3, 4), rd(1, 5, 6)}, true},
		"lost":                {[]linEvent{w(1, 1, 2), w(2, 3, 4), rd(2, 5, 6), rd(-1, 7, 8)}, true},
		"never-written":       {[]linEvent{w(1, 1, 2), rd(7, 3, 4)}, true},
		"read-before-written": {[]linEvent{rd(1, 1, 2), w(1, 3, 4)}, true},
	} {
		if got := checkQueueHistory(tc.h, true) != ""; got != tc.bad {
			rec.violation("C01 harness self-test: the FIFO history oracle misjudged a hand-made history", name, nil)
		}
		rec.count("history_oracle_self_tests", 1)
	}
	for q := 0; q < env.pickN(192, 4800); q++ {
		idx := caseIdx
		caseIdx++
		if !env.mine(idx) {
			continue
		}
		rng := rec.seed(uint64(idx), 1001)
		sc := genSessScenario(rng, idx, "concurrent-callers")
		sc.Link.Cipher = cipherNames[q%len(cipherNames)]
		sc.CfgC.Stream, sc.CfgS.Stream = false, false
		sc.CfgC.Mtu, sc.CfgS.Mtu = 0, 0
		sc.CfgC.SndWnd = pick(rng, []int{1, 2, 4, 32})
		sc.CfgS.RcvWnd = pick(rng, []int{2, 4, 32})
		if sc.Net.Loss > 0.2 {
			sc.Net.Loss = 0.2
		}
		sc.Net.Outages = nil
		writers, readers, msgs := rng.between(2, 4), rng.between(2, 4), rng.between(10, 40)
		if q%3 == 0 {
			writers, readers, msgs = 2, 2, rng.between(3, 8) // small enough for the general (exponential) checker
		}
		desc := map[string]any{"case": idx, "part": "concurrent-callers", "writers": writers, "readers": readers, "messages_per_writer": msgs, "scenario": sessBrief(&sc)}
		rec.beginCase(desc)
		synctest.Test(t, func(t *testing.T) {
			runC01Lin(t, rec, &sc, rng, desc, writers, readers, msgs)
		})
		rec.eval(1)
		rec.nontrivial(hashAny(desc))
		rec.sample("concurrent-callers", 1, desc)
	}
}

func runC01Lin(t *testing.T, rec *vrec, sc *sessScenario, rng *vrng, desc map[string]any, writers, readers, msgs int) {
	netRng := newRng(rng.u64())
	pf := sc.Net.fate(netRng)
	laddrS := ""
	w := newSessWorld(t, rec, desc, sc.Link, uint64(sc.Case), func(from, to string, nth int, now int64, data []byte) []int {
		dir := 0
		if from == laddrS {
			dir = 1
		}
		return pf(dir, nth, now, data)
	})
	refTime = time.Now()
	yieldMode.Store(1)
	defer yieldMode.Store(0)
	l := w.listen()
	laddrS = w.laddr.String()
	client, _ := w.dial(2, uint32(0x7000+sc.Case&0xffff))
	applySessCfg(client, sc.CfgC)
	var clock atomic.Int64
	var mu sync.Mutex
	var events []linEvent
	total := int64(writers * msgs)
	var wg sync.WaitGroup
	for wi := 0; wi < writers; wi++ {
		wg.Add(1)
		r := newRng(rng.u64())
		go func(wi int) {
			defer wg.Done()
			for m := 0; m < msgs; m++ {
				id := int64(wi)*1000000 + int64(m)
				b := make([]byte, r.between(8, 600))
				binary.LittleEndian.PutUint64(b, uint64(id))
				call := clock.Add(1)
				_, err := client.Write(b)
				ret := clock.Add(1)
				if err != nil {
					rec.violationf(desc, "C01 Write failed on an open session", "%v", err)
					return
				}
				mu.Lock()
				events = append(events, linEvent{wi, "write", id, call, ret})
				mu.Unlock()
				if r.chance(0.2) {
					time.Sleep(time.Duration(r.intn(30)) * time.Millisecond)
				}
			}
		}(wi)
	}
	l.SetReadDeadline(time.Now().Add(30 * time.Minute))
	server, err := l.AcceptKCP()
	if err != nil {
		rec.count("concurrent_callers_histories_without_connection", 1)
		client.Close()
		wg.Wait()
		w.shutdown(nil, false)
		return
	}
	applySessCfg(server, sc.CfgS)
	var got atomic.Int64
	allRead := make(chan struct{})
	var rg sync.WaitGroup
	for ri := 0; ri < readers; ri++ {
		rg.Add(1)
		go func(ri int) {
			defer rg.Done()
			buf := make([]byte, 2000)
			for {
				call := clock.Add(1)
				n, err := server.Read(buf)
				ret := clock.Add(1)
				id := int64(-1)
				if err == nil {
					if n < 8 {
						rec.violationf(desc, "C01 message boundary not preserved", "concurrent readers: a %d-byte message was returned, every message has >= 8 bytes", n)
					} else {
						id = int64(binary.LittleEndian.Uint64(buf))
					}
				}
				mu.Lock()
				events = append(events, linEvent{100 + ri, "read", id, call, ret})
				mu.Unlock()
				if err != nil {
					return
				}
				if got.Add(1) == total {
					close(allRead)
				}
			}
		}(ri)
	}
	complete := false
	select {
	case <-allRead:
		complete = true
	case <-time.After(time.Duration(sc.Net.HealAt)*time.Millisecond + 2*time.Hour):
	}
	wg.Wait()
	server.Close() // the remaining readers return with an error (consumed nothing)
	client.Close()
	rg.Wait()
	if !complete {
		rec.violation("C02 transfer did not complete within the virtual-time limit", fmt.Sprintf("%d of %d messages read", got.Load(), total), desc)
	}
	rec.count("concurrent_callers_histories", 1)
	rec.count("concurrent_callers_operations", int64(len(events)))
	if why := checkQueueHistory(events, complete); why != "" {
		d2 := map[string]any{"history": events}
		for k, v := range desc {
			d2[k] = v
		}
		rec.violation("C01 concurrent Write/Read history is not linearizable as a FIFO queue of messages", why, d2)
	}
	// small histories are cross-checked offline with porcupine
	if rec.env.outDir != "" && len(events) <= 40 {
		b, _ := json.Marshal(map[string]any{"case": sc.Case, "events": events, "desc": desc})
		os.WriteFile(filepath.Join(rec.env.outDir, fmt.Sprintf("hist_%d.json", sc.Case)), b, 0o644)
	}
	w.shutdown(nil, true)
}

// checkQueueHistory decides linearizability against a FIFO queue for histories
// with unique values in polynomial time, by the bad-pattern characterisation
// (Bouajjani, Emmi, Enea, Hamza 2015): a history of enqueues (writes) and
// dequeues (successful reads) of distinct values is linearizable iff
//   (1) every value read was written, and its read does not return before its
//       write was called,
//   (2) no value is read twice,
//   (3) for values a, b with write(a) returning before write(b) is called:
//       read(b) does not return before read(a) is called, and if b was read
//       then a was read too (in a history in which all reads have finished).
// Failed reads consumed nothing and are ignored.
func checkQueueHistory(evs []linEvent, complete bool) string {
	type span struct{ call, ret int64 }
	wr := map[int64]span{}
	rd := map[int64]span{}
	for _, e := range evs {
		switch {
		case e.Op == "write":
			wr[e.ID] = span{e.Call, e.Return}
		case e.ID >= 0:
			if _, dup := rd[e.ID]; dup {
				return fmt.Sprintf("message %d was returned by two reads (duplicated)", e.ID)
			}
			rd[e.ID] = span{e.Call, e.Return}
		}
	}
	for id, r := range rd {
		w, ok := wr[id]
		if !ok {
			return fmt.Sprintf("a read returned message %d, which no writer wrote", id)
		}
		if r.ret < w.call {
			return fmt.Sprintf("the read of message %d returned before its Write was called", id)
		}
	}
	for a, wa := range wr {
		for b, wb := range wr {
			if a == b || !(wa.ret < wb.call) {
				continue
			}
			// a was written strictly before b
			rb, bRead := rd[b]
			ra, aRead := rd[a]
			if bRead && aRead && rb.ret < ra.call {
				return fmt.Sprintf("message %d was written before message %d (Write returned before the other was called) but read after it (reordered)", a, b)
			}
			if bRead && !aRead && complete {
				return fmt.Sprintf("message %d was written before message %d; %d was read, %d never (lost)", a, b, b, a)
			}
		}
	}
	return ""
}
