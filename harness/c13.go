//go:build verif

package kcp

// C13 — blocked Read / Write / Accept always wake: data, deadline, close,
// error. Every verdict is a virtual-time stamp and an error class recorded at
// the API boundary inside a synctest bubble.

import (
	"errors"
	"fmt"
	"io"
	"net"
	"sort"
	"sync/atomic"
	"testing"
	"testing/synctest"
	"time"
)

type c13Caller struct {
	id    int
	start time.Duration
	end   time.Duration
	n     int
	class string // data | timeout | closed | sockerr | other:<msg>
	done  chan struct{}
}

func classify(n int, err error) string {
	switch {
	case err == nil:
		return "data"
	case errors.Is(err, io.ErrClosedPipe):
		return "closed"
	case errors.Is(err, errSimInjected):
		return "sockerr"
	}
	var ne net.Error
	if errors.As(err, &ne) && ne.Timeout() {
		return "timeout"
	}
	if err.Error() == "timeout" {
		return "timeout-without-net.Error"
	}
	return "other:" + err.Error()
}

type c13Stim struct {
	At   int    `json:"at_ms"`          // virtual ms since the callers blocked
	Kind string `json:"kind"`           // deadline | clear | data | open | close | sockerr | connect
	Arg  int    `json:"arg,omitempty"`  // deadline: absolute ms (may be in the past); data: number of messages
	One  bool   `json:"one_datagram,omitempty"`
	Rec  bool   `json:"through_fec_recovery,omitempty"` // data: the datagram of the first message is lost, the group's parity arrives
}

type c13Script struct {
	Case    int64     `json:"case"`
	Op      string    `json:"op"` // read | write | accept
	Callers int       `json:"callers"`
	PreDL   int       `json:"deadline_before_call_ms,omitempty"` // 0: none; else absolute ms
	Stims   []c13Stim `json:"stimuli"`
	Link    linkCfg   `json:"link"`
	API     string    `json:"deadline_api"` // SetReadDeadline/SetWriteDeadline or SetDeadline
	ReadBuf int       `json:"read_buffer,omitempty"` // read: size of every caller's buffer (messages are 3 bytes)
}

const c13Delay = 5 // one-way network delay (ms)

func genC13Script(rng *vrng, idx int64, op string) c13Script {
	sc := c13Script{Case: idx, Op: op, Callers: rng.between(1, 3)}
	sc.Link.Cipher = pick(rng, []string{"", "", "aes-128", "salsa20", "aes-128-gcm"})
	if rng.chance(0.3) {
		sc.Link.D, sc.Link.P = 2, 1
	}
	sc.Link.UDPAddr = rng.chance(0.5)
	sc.Link.Batch = rng.chance(0.4)
	sc.API = pick(rng, []string{"specific", "SetDeadline"})
	if rng.chance(0.4) {
		sc.PreDL = rng.between(20, 400)
	}
	if op == "read" {
		sc.ReadBuf = pick(rng, []int{4096, 4096, 4096, 1, 2})
	}
	t := 0
	n := rng.between(1, 5)
	final := pick(rng, []string{"close", "close", "sockerr", "data", "deadline"})
	recUsed := false
	for i := 0; i < n; i++ {
		t += pick(rng, []int{0, 1, 2, rng.between(3, 150)})
		kinds := []string{"deadline", "deadline", "clear", "data"}
		if op == "write" {
			kinds = []string{"deadline", "deadline", "clear", "open", "grow"}
		}
		if op == "accept" {
			kinds = []string{"deadline", "deadline", "clear", "connect"}
		}
		k := pick(rng, kinds)
		st := c13Stim{At: t, Kind: k}
		switch k {
		case "deadline":
			// around now, around the deadline in force, or later
			st.Arg = t + pick(rng, []int{-5, -1, 0, 1, 2, rng.between(3, 300)})
		case "data":
			st.Arg = rng.between(1, 4)
			st.One = rng.chance(0.5)
			if sc.Link.D > 0 && !recUsed && rng.chance(0.5) {
				// two messages in two datagrams of one FEC group; the first datagram is
				// lost and its message reaches the receiver only through the parity
				st.Arg, st.One, st.Rec = 2, false, true
				recUsed = true
			}
		}
		sc.Stims = append(sc.Stims, st)
	}
	t += rng.between(1, 500)
	switch final {
	case "close":
		sc.Stims = append(sc.Stims, c13Stim{At: t, Kind: "close"})
	case "sockerr":
		sc.Stims = append(sc.Stims, c13Stim{At: t, Kind: "sockerr", One: rng.chance(0.5)})
		sc.Stims = append(sc.Stims, c13Stim{At: t + 1000, Kind: "close"})
	case "data":
		k := map[string]string{"read": "data", "write": "open", "accept": "connect"}[op]
		sc.Stims = append(sc.Stims, c13Stim{At: t, Kind: k, Arg: 4, One: rng.chance(0.5)})
		sc.Stims = append(sc.Stims, c13Stim{At: t + 3000, Kind: "close"})
	case "deadline":
		sc.Stims = append(sc.Stims, c13Stim{At: t, Kind: "deadline", Arg: t + rng.between(1, 300)})
		sc.Stims = append(sc.Stims, c13Stim{At: t + 2000, Kind: "close"})
	}
	return sc
}

func TestVerifC13(t *testing.T) {
	rec := newRec(t, "C13")
	defer rec.finish(t)
	env := rec.env
	var caseIdx int64
	ops := []string{"read", "write", "accept"}
	for q := 0; q < env.pickN(4800, 60000); q++ {
		idx := caseIdx
		caseIdx++
		if !env.mine(idx) {
			continue
		}
		rng := rec.seed(uint64(idx), 13)
		sc := genC13Script(rng, idx, ops[q%3])
		rec.beginCase(sc)
		synctest.Test(t, func(t *testing.T) {
			runC13(t, rec, &sc, rng)
		})
		rec.eval(1)
		rec.nontrivial(hashAny(sc))
		rec.sample(sc.Op, 2, sc)
	}

	// ---- after Close: Write fails, Read drains then fails, second Close errors ----
	for q := 0; q < env.pickN(96, 2400); q++ {
		idx := caseIdx
		caseIdx++
		if !env.mine(idx) {
			continue
		}
		rng := rec.seed(uint64(idx), 131)
		desc := map[string]any{"case": idx, "part": "after-close", "messages": rng.between(0, 5), "readbuf": pick(rng, []int{1, 7, 100, 4096})}
		rec.beginCase(desc)
		synctest.Test(t, func(t *testing.T) { runAfterClose(t, rec, desc, rng) })
		rec.eval(1)
		rec.nontrivial(hashAny(desc))
	}
}

// c13World builds a connected client/server pair on a clean 5 ms network.
func c13World(t *testing.T, rec *vrec, desc any, link linkCfg, seed uint64) (*sessWorld, *Listener, *UDPSession, *simConn, *UDPSession) {
	w := newSessWorld(t, rec, desc, link, seed, func(from, to string, nth int, now int64, data []byte) []int { return []int{c13Delay} })
	refTime = time.Now()
	yieldMode.Store(1)
	l := w.listen()
	client, cconn := w.dial(2, uint32(0x3000+seed&0xfff))
	client.SetNoDelay(1, 10, 0, 1)
	client.SetWriteDelay(false)
	client.SetStreamMode(false)
	client.Write([]byte("hello"))
	l.SetReadDeadline(time.Now().Add(time.Minute))
	server, err := l.AcceptKCP()
	if err != nil {
		panic("c13World: accept failed on a clean network: " + err.Error())
	}
	l.SetReadDeadline(time.Time{})
	server.SetNoDelay(1, 10, 0, 1)
	// no deadline is ever set on the sessions here: a script must be able to set
	// the very first one while a caller is already blocked
	buf := make([]byte, 100)
	if n, err := server.Read(buf); err != nil || n != 5 {
		panic(fmt.Sprintf("c13World: first read: %d %v", n, err))
	}
	time.Sleep(200 * time.Millisecond) // let the ACKs settle
	synctest.Wait()
	return w, l, client, cconn, server
}

func runC13(t *testing.T, rec *vrec, sc *c13Script, rng *vrng) {
	var w *sessWorld
	var l *Listener
	var client, server *UDPSession
	var cconn *simConn
	viol := func(key, format string, args ...any) {
		rec.violation(key, fmt.Sprintf(format, args...), sc)
	}
	if sc.Op == "accept" {
		w = newSessWorld(t, rec, sc, sc.Link, uint64(sc.Case), func(from, to string, nth int, now int64, data []byte) []int { return []int{c13Delay} })
		refTime = time.Now()
		yieldMode.Store(1)
		l = w.listen()
	} else {
		w, l, client, cconn, server = c13World(t, rec, sc, sc.Link, uint64(sc.Case))
	}
	_ = cconn
	defer yieldMode.Store(0)

	// the object whose callers block and whose deadline is scripted
	var setDL func(tm time.Time)
	var call func() (int, error)
	switch sc.Op {
	case "read":
		setDL = func(tm time.Time) {
			if sc.API == "SetDeadline" {
				server.SetDeadline(tm)
			} else {
				server.SetReadDeadline(tm)
			}
		}
		call = func() (int, error) { return server.Read(make([]byte, sc.ReadBuf)) }
	case "write":
		// cut the ACK path and fill the client's send window
		w.hub.setFate(func(from, to string, nth int, now int64, data []byte) []int {
			if from == w.laddr.String() {
				return nil
			}
			return []int{c13Delay}
		})
		client.SetWindowSize(4, 32)
		for i := 0; i < 64; i++ {
			client.mu.Lock()
			full := client.kcp.WaitSnd() >= int(client.kcp.snd_wnd)
			client.mu.Unlock()
			if full {
				break
			}
			if _, err := client.Write([]byte("fill")); err != nil {
				panic("c13: filling the window: " + err.Error())
			}
		}
		setDL = func(tm time.Time) {
			if sc.API == "SetDeadline" {
				client.SetDeadline(tm)
			} else {
				client.SetWriteDeadline(tm)
			}
		}
		call = func() (int, error) { return client.Write([]byte("x")) }
	case "accept":
		setDL = func(tm time.Time) {
			if sc.API == "SetDeadline" {
				l.SetDeadline(tm)
			} else {
				l.SetReadDeadline(tm)
			}
		}
		call = func() (int, error) {
			s, err := l.AcceptKCP()
			if err == nil {
				w.mu.Lock()
				w.sessions = append(w.sessions, s)
				w.mu.Unlock()
				return 1, nil
			}
			return 0, err
		}
	}

	// read units one 3-byte message provides (a caller's buffer may be smaller)
	perMsg := 1
	if sc.Op == "read" && sc.ReadBuf < 3 {
		perMsg = (3 + sc.ReadBuf - 1) / sc.ReadBuf
	}
	// on demand, the next datagram from the client is lost (the client is silent
	// unless the script makes it write, and the server sends no data it would
	// have to acknowledge: that datagram is the first message's data packet)
	var dropOne atomic.Bool
	if sc.Op == "read" && client != nil {
		claddr := cconn.addr.String()
		w.hub.setFate(func(from, to string, nth int, now int64, data []byte) []int {
			if from == claddr && dropOne.CompareAndSwap(true, false) {
				return nil
			}
			return []int{c13Delay}
		})
	}
	t0 := time.Now()
	at := func(ms int) time.Time { return t0.Add(time.Duration(ms) * time.Millisecond) }
	// model state
	dl := 0 // deadline in force as absolute ms+1 (0: none)
	if sc.PreDL != 0 {
		setDL(at(sc.PreDL))
		dl = sc.PreDL + 1
	}
	callers := make([]*c13Caller, sc.Callers)
	for i := range callers {
		c := &c13Caller{id: i, done: make(chan struct{})}
		callers[i] = c
		go func() {
			c.start = time.Since(t0)
			n, err := call()
			c.end = time.Since(t0)
			c.n, c.class = n, classify(n, err)
			close(c.done)
		}()
	}
	synctest.Wait()
	returned := func(c *c13Caller) bool {
		select {
		case <-c.done:
			return true
		default:
			return false
		}
	}
	blocked := func() []*c13Caller {
		var out []*c13Caller
		for _, c := range callers {
			if !returned(c) {
				out = append(out, c)
			}
		}
		return out
	}
	accounted := map[int]bool{}
	// expect: exactly 'count' of the not-yet-accounted callers have returned with
	// class at virtual time 'when' (ms, exact) — or all of them if count < 0
	expect := func(count int, class string, when int, why string) {
		var got []*c13Caller
		for _, c := range callers {
			if !accounted[c.id] && returned(c) {
				got = append(got, c)
			}
		}
		pending := 0
		for _, c := range callers {
			if !accounted[c.id] {
				pending++
			}
		}
		want := count
		if count < 0 || count > pending {
			want = pending
		}
		if len(got) != want {
			viol(fmt.Sprintf("C13 %s: wrong number of callers woke on %s", sc.Op, why), "expected %d of %d waiting callers to return with %q at %d ms, %d returned (%s)", want, pending, class, when, len(got), describeCallers(callers))
		}
		for _, c := range got {
			accounted[c.id] = true
			endMs := float64(c.end) / float64(time.Millisecond)
			if c.class != class {
				viol(fmt.Sprintf("C13 %s: caller returned %s, expected %s on %s", sc.Op, normClass(c.class), class, why), "caller %d returned %q at %.3f ms, expected %q at %d ms (%s)", c.id, c.class, endMs, class, when, describeCallers(callers))
			} else if when >= 0 && (endMs < float64(when) || endMs >= float64(when)+1) {
				k := "late"
				if endMs < float64(when) {
					k = "early"
				}
				viol(fmt.Sprintf("C13 %s: caller returned %s on %s", sc.Op, k, why), "caller %d returned %q at %.3f ms, expected at %d ms (%s)", c.id, c.class, endMs, when, describeCallers(callers))
			}
		}
	}
	noneReturned := func(why string) {
		for _, c := range callers {
			if !accounted[c.id] && returned(c) {
				viol(fmt.Sprintf("C13 %s: caller returned although nothing it waits for happened (%s)", sc.Op, why), "caller %d returned %q at %.3f ms (%s)", c.id, c.class, float64(c.end)/1e6, describeCallers(callers))
				accounted[c.id] = true
			}
		}
	}
	// a deadline already past when the call starts fires at once
	if dl != 0 && dl-1 <= 0 {
		expect(-1, "timeout", 0, "a deadline already expired at the call")
	}
	now := 0
	avail := 0 // units (messages / accepts) available and unclaimed
	advance := func(to int) {
		// deadline expiry between now and to (exclusive of 'to' itself: a change
		// at the very instant of expiry is ambiguous and not generated)
		if dl != 0 && dl-1 >= now && dl-1 < to && len(accounted) < len(callers) {
			time.Sleep(time.Until(at(dl - 1)))
			synctest.Wait()
			expect(-1, "timeout", dl-1, "deadline expiry")
		}
		time.Sleep(time.Until(at(to)))
		synctest.Wait()
		now = to
	}
	closed := false
	pendingN := func() int {
		n := 0
		for _, c := range callers {
			if !accounted[c.id] {
				n++
			}
		}
		return n
	}
	// settle accounts for callers that returned during a phase in which both a
	// positive outcome (class okClass, any time) and a deadline expiry (exactly
	// at the deadline in force) are legitimate
	settle := func(okClass, why string) {
		for _, c := range callers {
			if accounted[c.id] || !returned(c) {
				continue
			}
			accounted[c.id] = true
			endMs := float64(c.end) / float64(time.Millisecond)
			switch {
			case c.class == okClass:
			case c.class == "timeout" && dl != 0 && endMs >= float64(dl-1) && endMs < float64(dl):
			default:
				viol(fmt.Sprintf("C13 %s: caller returned %s, expected %s (or a timeout at the deadline) after %s", sc.Op, normClass(c.class), okClass, why), "caller %d returned %q at %.3f ms, deadline in force %d ms (%s)", c.id, c.class, endMs, dl-1, describeCallers(callers))
			}
		}
	}
	for _, st := range sc.Stims {
		if len(accounted) == len(callers) {
			break
		}
		if st.At < now {
			st.At = now
		}
		// avoid the ambiguous tie "change exactly at the expiry instant"
		if dl != 0 && dl-1 == st.At {
			st.At++
		}
		advance(st.At)
		if len(accounted) == len(callers) {
			break
		}
		switch st.Kind {
		case "deadline":
			setDL(at(st.Arg))
			dl = st.Arg + 1
			synctest.Wait()
			if st.Arg <= now {
				expect(-1, "timeout", now, "a deadline set in the past while blocked")
			} else {
				noneReturned("deadline moved to the future")
			}
		case "clear":
			setDL(time.Time{})
			dl = 0
			synctest.Wait()
			noneReturned("deadline cleared")
		case "data", "connect":
			units := st.Arg
			if st.Kind == "data" && st.Rec {
				// the two datagrams must be the two data packets of one group: bring
				// the client's encoder to a group boundary first (an ordinary
				// message, delivered and claimed like any other)
				client.mu.Lock()
				odd := client.fecEncoder != nil && client.fecEncoder.shardCount%2 == 1
				client.mu.Unlock()
				if odd {
					client.Write([]byte{9, 1, 2})
					arrive := now + c13Delay
					if dl != 0 && dl-1 >= now && dl-1 <= arrive+1 {
						// an expiry around this extra arrival: not judged
						time.Sleep(time.Until(at(arrive + 2)))
						synctest.Wait()
						now = arrive + 2
						for _, c := range callers {
							if !accounted[c.id] && returned(c) {
								accounted[c.id] = true
							}
						}
						rec.count("c13_ambiguous_ties_not_judged", 1)
						avail = 0
						break
					}
					advance(arrive)
					nb := pendingN()
					expect(min(nb, perMsg+avail), "data", now, "data arrival")
					avail = max(0, perMsg+avail-nb)
					if dl != 0 && dl-1 >= now && dl-1 <= now+3 {
						advance(now + 4)
					} else {
						advance(now + 2)
					}
					if pendingN() == 0 {
						break
					}
				}
				dropOne.Store(true)
			}
			if st.Kind == "data" {
				msgs := units
				units *= perMsg
				if st.One {
					// several messages in one datagram: queue them with write delay on
					client.SetWriteDelay(true)
					for i := 0; i < msgs; i++ {
						client.Write([]byte{byte(i), 1, 2})
					}
					client.SetWriteDelay(false)
					client.mu.Lock()
					client.kcp.flush(IKCP_FLUSH_FULL)
					client.mu.Unlock()
				} else {
					for i := 0; i < msgs; i++ {
						client.Write([]byte{byte(i), 1, 2})
					}
				}
			} else {
				for i := 0; i < units; i++ {
					cl, _ := w.dial(byte(10+len(w.sessions)), uint32(0x5000+len(w.sessions)))
					cl.SetNoDelay(1, 10, 0, 1)
					cl.Write([]byte("hi"))
				}
			}
			arrive := now + c13Delay
			if dl != 0 && dl-1 == arrive {
				// expiry and arrival in the same instant: either may win
				time.Sleep(time.Until(at(arrive)))
				synctest.Wait()
				now = arrive
				for _, c := range callers {
					if !accounted[c.id] && returned(c) {
						accounted[c.id] = true
					}
				}
				rec.count("c13_ambiguous_ties_not_judged", 1)
				avail = 0
				break
			}
			advance(arrive) // callers whose deadline expires before the arrival time out first
			nb := pendingN()
			what := map[string]string{"data": "data arrival", "connect": "a peer connecting"}[st.Kind]
			expect(min(nb, units+avail), "data", now, what)
			avail = max(0, units+avail-nb)
			if st.Kind == "data" {
				// nothing readable may be left while someone waits
				server.mu.Lock()
				peek, rest := server.kcp.PeekSize(), len(server.bufptr)
				server.mu.Unlock()
				if (peek > 0 || rest > 0) && len(blocked()) > 0 {
					viol("C13 read: readable data left unclaimed while a reader is blocked", "%d reader(s) still blocked with a %d-byte message readable and %d bytes of a partly read one (%s)", len(blocked()), peek, rest, describeCallers(callers))
				}
				if st.Rec {
					rec.count("c13_data_through_fec_recovery", 1)
					if dropOne.Load() {
						viol("C13 harness: the datagram to be lost was never seen", "%s", describeCallers(callers))
					}
				}
			}
		case "open":
			// ACK path restored: the window opens after the next retransmission
			// round trip; free window is re-announced by every update tick
			w.hub.setFate(func(from, to string, nth int, now int64, data []byte) []int { return []int{c13Delay} })
			limit := now + 4000
			for pendingN() > 0 && now < limit {
				time.Sleep(20 * time.Millisecond)
				now += 20
				synctest.Wait()
				settle("data", "the window opened")
			}
			if n := pendingN(); n > 0 {
				client.mu.Lock()
				ws, sw := client.kcp.WaitSnd(), client.kcp.snd_wnd
				client.mu.Unlock()
				viol("C13 write: free window left unclaimed while a writer is blocked", "%d writer(s) still blocked %d ms after the ACK path was restored, WaitSnd=%d snd_wnd=%d (%s)", n, now-st.At, ws, sw, describeCallers(callers))
			}
		case "grow":
			// the application enlarges the send window: blocked writers can
			// proceed (announced by the next update tick at the latest)
			client.SetWindowSize(128, 32)
			limit := now + 500
			for pendingN() > 0 && now < limit {
				time.Sleep(10 * time.Millisecond)
				now += 10
				synctest.Wait()
				settle("data", "the send window was enlarged")
			}
			if n := pendingN(); n > 0 {
				client.mu.Lock()
				ws, sw := client.kcp.WaitSnd(), client.kcp.snd_wnd
				client.mu.Unlock()
				viol("C13 write: free window left unclaimed while a writer is blocked", "%d writer(s) still blocked %d ms after SetWindowSize enlarged the window, WaitSnd=%d snd_wnd=%d (%s)", n, now-st.At, ws, sw, describeCallers(callers))
			}
		case "close":
			closed = true
			switch sc.Op {
			case "read":
				server.Close()
			case "write":
				client.Close()
			case "accept":
				l.Close()
			}
			synctest.Wait()
			expect(-1, "closed", now, "Close")
		case "sockerr":
			switch sc.Op {
			case "read", "accept":
				if sc.Op == "read" && st.One {
					// orderly server shutdown: the listener is closed first, then
					// its socket fails; the accepted session's readers must still
					// hear about it
					l.Close()
				}
				w.lconn.failReads(errSimInjected)
				synctest.Wait()
				expect(-1, "sockerr", now, "a socket read error")
			case "write":
				cconn.failWrites(errSimInjected)
				// the error surfaces with the next transmission (retransmission
				// timer / update tick)
				limit := now + 3000
				for pendingN() > 0 && now < limit {
					time.Sleep(10 * time.Millisecond)
					now += 10
					synctest.Wait()
					settle("sockerr", "a socket write error")
				}
				if n := pendingN(); n > 0 {
					viol("C13 write: callers not woken by a socket write error", "%d still blocked 3 s after WriteTo started failing (%s)", n, describeCallers(callers))
				}
			}
		}
	}
	// pending deadline after the last stimulus
	if len(accounted) < len(callers) && dl != 0 && !closed {
		advance(dl)
		if len(accounted) < len(callers) {
			expect(-1, "timeout", dl-1, "deadline expiry")
		}
	}
	// release whoever is left
	if !closed {
		switch sc.Op {
		case "read":
			server.Close()
		case "write":
			client.Close()
		case "accept":
			l.Close()
		}
		synctest.Wait()
		if len(accounted) < len(callers) {
			expect(-1, "closed", -1, "Close")
		}
	}
	for _, c := range callers {
		select {
		case <-c.done:
		case <-time.After(time.Minute):
			viol(fmt.Sprintf("C13 %s: caller still blocked a virtual minute after Close", sc.Op), "%s", describeCallers(callers))
			// force the bubble to be able to end
			w.lconn.failReads(errSimInjected)
			<-c.done
		}
	}
	rec.count("c13_scripts_"+sc.Op, 1)
	rec.count("c13_callers_observed", int64(len(callers)))
	// second Close reports an error
	var second error
	switch sc.Op {
	case "read":
		second = server.Close()
	case "write":
		second = client.Close()
	case "accept":
		second = l.Close()
	}
	if second == nil {
		viol(fmt.Sprintf("C13 %s: second Close reported no error", sc.Op), "")
	}
	w.shutdown(nil, true)
}

func normClass(c string) string {
	if len(c) > 6 && c[:6] == "other:" {
		return "other error"
	}
	return c
}

func describeCallers(cs []*c13Caller) string {
	var parts []string
	for _, c := range cs {
		select {
		case <-c.done:
			parts = append(parts, fmt.Sprintf("#%d %s(n=%d)@%.3fms", c.id, c.class, c.n, float64(c.end)/1e6))
		default:
			parts = append(parts, fmt.Sprintf("#%d blocked", c.id))
		}
	}
	sort.Strings(parts)
	return fmt.Sprint(parts)
}

// runAfterClose: data received but not yet read, then Close: Write fails, Read
// returns exactly the bytes already received and then fails, second Close
// reports an error.
func runAfterClose(t *testing.T, rec *vrec, desc map[string]any, rng *vrng) {
	link := linkCfg{Cipher: pick(rng, []string{"", "aes-128", "aes-128-gcm"}), UDPAddr: rng.chance(0.5)}
	w, l, client, _, server := c13World(t, rec, desc, link, uint64(desc["case"].(int64)))
	defer yieldMode.Store(0)
	_ = l
	viol := func(key, format string, args ...any) { rec.violation(key, fmt.Sprintf(format, args...), desc) }
	msgs := desc["messages"].(int)
	stream := uint64(0xE000)
	var sent []byte
	for i := 0; i < msgs; i++ {
		b := make([]byte, rng.between(1, 300))
		fillContent(stream, uint64(len(sent)), b)
		sent = append(sent, b...)
		client.Write(b)
	}
	time.Sleep(100 * time.Millisecond)
	synctest.Wait()
	if err := server.Close(); err != nil {
		viol("C13 after-close: first Close failed", "%v", err)
	}
	if _, err := server.Write([]byte("x")); err == nil {
		viol("C13 after-close: Write succeeded on a closed session", "")
	} else if classify(0, err) != "closed" {
		viol("C13 after-close: Write on a closed session returned an unexpected error", "%v", err)
	}
	var got []byte
	buf := make([]byte, desc["readbuf"].(int))
	for i := 0; i < 100000; i++ {
		n, err := server.Read(buf)
		if err != nil {
			if classify(n, err) != "closed" {
				viol("C13 after-close: Read on a closed session returned an unexpected error", "%v", err)
			}
			break
		}
		got = append(got, buf[:n]...)
	}
	if len(got) != len(sent) || checkContent(stream, 0, got) >= 0 {
		viol("C13 after-close: Read did not drain exactly the data already received", "received before Close: %d bytes, Read returned %d bytes after Close", len(sent), len(got))
	}
	if err := server.Close(); err == nil {
		viol("C13 after-close: second Close reported no error", "")
	}
	rec.count("c13_after_close_cases", 1)
	w.shutdown(nil, true)
}
