//go:build verif

package kcp

// C06 — packets failing the integrity check have no effect at all.
// Monitor: deep snapshots of session / FEC decoder / listener state and of all
// SNMP counters at bubble quiescence before and after injecting one datagram;
// no virtual time passes in between, so nothing but the datagram can change
// anything.

import (
	"crypto/aes"
	"crypto/cipher"
	"encoding/binary"
	"fmt"
	"hash/crc32"
	"net"
	"reflect"
	"sync"
	"testing"
	"testing/synctest"
	"time"
)

type capturedDgram struct {
	data []byte
	kind string // data | parity | oob | plain
}

func snmpDiff(a, b *Snmp) map[string]int64 {
	out := map[string]int64{}
	va, vb := reflect.ValueOf(*a), reflect.ValueOf(*b)
	for i := 0; i < va.NumField(); i++ {
		if d := int64(vb.Field(i).Uint()) - int64(va.Field(i).Uint()); d != 0 {
			out[va.Type().Field(i).Name] = d
		}
	}
	return out
}

func TestVerifC06(t *testing.T) {
	rec := newRec(t, "C06")
	defer rec.finish(t)
	env := rec.env
	var caseIdx int64
	ciphers := cipherNames[1:] // a cipher must be configured
	for q := 0; q < env.pickN(96, 600); q++ {
		idx := caseIdx
		caseIdx++
		if !env.mine(idx) {
			continue
		}
		rng := rec.seed(uint64(idx), 6)
		sc := genSessScenario(rng, idx, "integrity")
		sc.Link.Cipher = ciphers[q%len(ciphers)]
		if q%3 != 0 {
			sc.Link.D, sc.Link.P = pick(rng, []int{1, 2, 3, 10}), pick(rng, []int{1, 2, 3})
		} else {
			sc.Link.D, sc.Link.P = 0, 0
		}
		for _, c := range []*sessCfg{&sc.CfgC, &sc.CfgS} {
			if c.Mtu != 0 && c.Mtu < sc.Link.overhead()+IKCP_OVERHEAD+30 {
				c.Mtu = 0
			}
		}
		sc.BytesCS = max(sc.BytesCS, 30000)
		sc.BytesSC = max(sc.BytesSC, 10000)
		if sc.Net.Loss > 0.2 {
			sc.Net.Loss = 0.2
		}
		rec.beginCase(sc)
		synctest.Test(t, func(t *testing.T) { runC06(t, rec, &sc, rng) })
		rec.eval(1)
		rec.nontrivial(hashAny(sc))
		rec.sample("integrity", 2, sessBrief(&sc))
	}

	// ---- real UDP: the recvmmsg batch loops ------------------------------------
	schedBubbleMode.Store(false)
	for q := 0; q < env.pickN(60, 600); q++ {
		idx := caseIdx
		caseIdx++
		if !env.mine(idx) {
			continue
		}
		rng := rec.seed(uint64(idx), 61)
		cn := ciphers[q%len(ciphers)]
		desc := map[string]any{"case": idx, "part": "real-udp-batch", "cipher": cn, "listener_path": q%2 == 1}
		rec.beginCase(desc)
		setCurrent(rec, desc)
		c06RealUDPBatch(rec, desc, rng, cn, q%2 == 1)
		rec.eval(1)
		rec.nontrivial(hashAny(desc))
		rec.sample("real-udp-batch", 1, desc)
	}
}

// c06RealUDPBatch: the Linux batch read loops (recvmmsg) are only reachable with
// real UDP sockets. A datagram failing the check is queued in the socket
// together with valid ones BEFORE the session (or listener) starts reading, so
// that one ReadBatch returns them all: the valid ones must still be delivered.
func c06RealUDPBatch(rec *vrec, desc map[string]any, rng *vrng, cipherName string, listenerPath bool) {
	spec := cipherByName(cipherName)
	key := rng.bytes(spec.keyLen)
	block, _ := spec.mk(key)
	sl := newSealer(spec, key)
	c, err := net.ListenUDP("udp4", &net.UDPAddr{IP: net.IPv4(127, 0, 0, 1)})
	if err != nil {
		rec.inconcl("real-udp-batch: " + err.Error())
		return
	}
	defer c.Close()
	peer, err := net.ListenUDP("udp4", &net.UDPAddr{IP: net.IPv4(127, 0, 0, 1)})
	if err != nil {
		rec.inconcl("real-udp-batch: " + err.Error())
		return
	}
	defer peer.Close()
	conv := rng.u32()
	push := func(sn uint32, msg string) []byte {
		return sl.seal(rng, encodeSeg(wseg{conv: conv, cmd: IKCP_CMD_PUSH, wnd: 32, sn: sn, data: []byte(msg)}))
	}
	valid0 := push(0, "hello-0")
	var gcm cipher.AEAD
	var ref *refCrypt
	if spec.kind == "aead" {
		blk, _ := aes.NewCipher(key)
		gcm, _ = cipher.NewGCM(blk)
	} else {
		ref, _ = newRefCrypt(*spec, key)
	}
	var bads [][]byte
	for len(bads) < 3 {
		b, _, certain := corruptDgram(rng, spec, ref, gcm, valid0)
		if certain {
			bads = append(bads, b)
		}
	}
	before := DefaultSnmp.Copy()
	// queue: bad, valid sn0, bad, valid sn1, bad
	for _, d := range [][]byte{bads[0], valid0, bads[1], push(1, "hello-1"), bads[2]} {
		peer.WriteToUDP(d, c.LocalAddr().(*net.UDPAddr))
	}
	time.Sleep(30 * time.Millisecond)
	var s *UDPSession
	var l *Listener
	if listenerPath {
		l, _ = ServeConn(block, 0, 0, c)
		defer l.Close()
		l.SetReadDeadline(time.Now().Add(3 * time.Second))
		s, err = l.AcceptKCP()
	} else {
		s, err = NewConn3(conv, peer.LocalAddr(), block, 0, 0, c)
	}
	read2 := func() (string, error) {
		got := ""
		buf := make([]byte, 100)
		for i := 0; i < 2; i++ {
			s.SetReadDeadline(time.Now().Add(3 * time.Second))
			n, err := s.Read(buf)
			if err != nil {
				return got, err
			}
			got += string(buf[:n]) + ";"
		}
		return got, nil
	}
	got := ""
	if err == nil {
		defer s.Close()
		got, err = read2()
	}
	rec.count("real_udp_batches_with_failing_datagrams", 1)
	if err == nil && got == "hello-0;hello-1;" {
		if d := snmpDiff(before, DefaultSnmp.Copy()); d["InCsumErrors"] == 0 && spec.kind != "aead" {
			// (runts below the header size are not counted; at least one of the
			// three corruptions is header-sized in practice, but not by construction)
			rec.count("real_udp_batches_without_checksum_error_count", 1)
		}
		return
	}
	// control: the same valid segments alone. If they get through now, the loss
	// was caused by the failing datagrams; if not, the machine or the socket
	// stalled and nothing is concluded.
	if s == nil {
		for _, d := range [][]byte{push(0, "hello-0"), push(1, "hello-1")} {
			peer.WriteToUDP(d, c.LocalAddr().(*net.UDPAddr))
		}
		l.SetReadDeadline(time.Now().Add(3 * time.Second))
		if s, err = l.AcceptKCP(); err != nil {
			rec.inconcl("real-udp-batch: no session even for the control datagrams")
			return
		}
		defer s.Close()
	} else {
		for _, d := range [][]byte{push(0, "hello-0"), push(1, "hello-1")} {
			peer.WriteToUDP(d, c.LocalAddr().(*net.UDPAddr))
		}
	}
	if got2, err2 := read2(); err2 == nil || got2 != "" {
		rec.violationf(desc, "C06 datagrams failing the integrity check made valid datagrams of the same receive batch disappear", "cipher %s, %s path: read %q (%v) from a batch [bad, sn0, bad, sn1, bad]; the same segments sent alone afterwards were delivered (%q)", cipherName, map[bool]string{true: "listener", false: "dialled-session"}[listenerPath], got, err, got2)
	} else {
		rec.inconcl("real-udp-batch: control datagrams not delivered either (stalled machine?)")
	}
}

func runC06(t *testing.T, rec *vrec, sc *sessScenario, rng *vrng) {
	spec := cipherByName(sc.Link.Cipher)
	var capMu sync.Mutex
	captured := map[string][]capturedDgram{} // by sender address
	var world *sessWorld
	var key []byte
	var ref *refCrypt
	var gcm cipher.AEAD
	fec := sc.Link.D > 0
	classifyDgram := func(data []byte) string {
		var pt []byte
		if gcm != nil {
			if len(data) < 28 {
				return "plain"
			}
			p, err := gcm.Open(nil, data[:12], data[12:], nil)
			if err != nil {
				return "plain"
			}
			pt = p
		} else {
			if len(data) < 20 {
				return "plain"
			}
			pt = ref.decrypt(data)[20:]
		}
		if fec && len(pt) >= 6 {
			switch binary.LittleEndian.Uint16(pt[4:]) {
			case 0xf1:
				return "data"
			case 0xf2:
				return "parity"
			case 0xf3:
				return "oob"
			}
		}
		return "plain"
	}
	var injected, judged, csumExpected int64
	stopOOB := make(chan struct{})
	hooks := &sessHooks{
		pre: func(w *sessWorld, client *UDPSession) {
			world = w
			key = w.key
			if spec.kind == "aead" {
				blk, _ := aes.NewCipher(key)
				gcm, _ = cipher.NewGCM(blk)
			} else {
				ref, _ = newRefCrypt(*spec, key)
			}
			prev := w.hub.tap
			w.hub.tap = func(from, to net.Addr, data []byte, nowMs int64) {
				prev(from, to, data, nowMs)
				capMu.Lock()
				l := captured[from.String()]
				if len(l) < 400 {
					captured[from.String()] = append(l, capturedDgram{data: data})
				} else {
					l[int(nowMs)%len(l)] = capturedDgram{data: data}
				}
				capMu.Unlock()
			}
		},
		post: func(w *sessWorld, client, server *UDPSession) {
			if fec {
				for _, s := range []*UDPSession{client, server} {
					s.SetOOBHandler(func([]byte) {})
					go func(s *UDPSession) {
						for {
							select {
							case <-stopOOB:
								return
							case <-time.After(40 * time.Millisecond):
								s.SendOOB([]byte("oob-traffic"))
							}
						}
					}(s)
				}
			}
			clientAddr := client.conn.LocalAddr()
			for round := 0; round < 3; round++ {
				time.Sleep(time.Duration(rng.between(30, 1500)) * time.Millisecond)
				// freeze: nothing new is delivered; let what is in flight land
				w.hub.frozen.Store(true)
				time.Sleep(3 * time.Second)
				synctest.Wait()
				capMu.Lock()
				fromClient := append([]capturedDgram(nil), captured[clientAddr.String()]...)
				fromServer := append([]capturedDgram(nil), captured[w.laddr.String()]...)
				capMu.Unlock()
				if len(fromClient) == 0 || len(fromServer) == 0 {
					w.hub.frozen.Store(false)
					continue
				}
				for k := 0; k < 12; k++ {
					// choose path and source
					toListener := rng.chance(0.6)
					var victim *UDPSession
					var from net.Addr
					var to string
					var pool []capturedDgram
					unknownSrc := false
					if toListener {
						victim, to, pool = server, w.laddr.String(), fromClient
						from = clientAddr
						if rng.chance(0.35) {
							unknownSrc = true
							from = w.addr(byte(100+rng.intn(100)), 7000+rng.intn(1000))
						}
					} else {
						victim, to, pool, from = client, clientAddr.String(), fromServer, w.laddr
					}
					orig := pool[rng.intn(len(pool))].data
					bad, what, certain := corruptDgram(rng, spec, ref, gcm, orig)
					if !certain {
						rec.count("corruptions_not_guaranteed_to_be_caught_skipped", 1)
						continue
					}
					hdr := 20
					if gcm != nil {
						hdr = 28
					}
					s1 := sessionSnapshot(victim)
					var sOther string
					if toListener {
						sOther = sessionSnapshot(client)
					} else {
						sOther = sessionSnapshot(server)
					}
					l1 := listenerSnapshot(w.listener)
					m1 := DefaultSnmp.Copy()
					w.hub.inject(from, to, bad)
					synctest.Wait()
					s2 := sessionSnapshot(victim)
					l2 := listenerSnapshot(w.listener)
					m2 := DefaultSnmp.Copy()
					injected++
					judged++
					desc := map[string]any{"scenario": sessBrief(sc), "case": sc.Case, "corruption": what, "kind": classifyDgram(orig), "len": len(bad), "to_listener": toListener, "unknown_source": unknownSrc}
					rec.count("injected_"+what, 1)
					rec.count("injected_into_"+map[bool]string{true: "listener", false: "client"}[toListener], 1)
					if unknownSrc {
						rec.count("injected_from_unknown_address", 1)
					}
					rec.count("injected_kind_"+classifyDgram(orig), 1)
					if s1 != s2 {
						rec.violationf(desc, "C06 datagram failing the integrity check changed session state", "%s: %s", what, snapDiff(s1, s2))
					}
					if l1 != l2 {
						rec.violationf(desc, "C06 datagram failing the integrity check changed the listener's session table or backlog", "%s: %s -> %s", what, l1, l2)
					}
					var s3 string
					if toListener {
						s3 = sessionSnapshot(client)
					} else {
						s3 = sessionSnapshot(server)
					}
					if s3 != sOther {
						rec.violationf(desc, "C06 datagram failing the integrity check changed the other session's state", "%s: %s", what, snapDiff(sOther, s3))
					}
					d := snmpDiff(m1, m2)
					wantCsum := int64(0)
					if len(bad) >= hdr {
						wantCsum = 1
						csumExpected++
					}
					if d["InCsumErrors"] != wantCsum {
						rec.violationf(desc, "C06 integrity failure not counted as exactly one checksum error", "%s (%d bytes): InCsumErrors moved by %d, expected %d", what, len(bad), d["InCsumErrors"], wantCsum)
					}
					delete(d, "InCsumErrors")
					if len(d) != 0 {
						rec.violationf(desc, "C06 datagram failing the integrity check moved other counters", "%s: %v", what, d)
					}
				}
				w.hub.frozen.Store(false)
			}
		},
		end: func(w *sessWorld, client, server *UDPSession) { close(stopOOB) },
	}
	res := runSessScenario(t, rec, sc, rng, hooks)
	_ = world
	res.tally(rec)
	rec.count("integrity_injections_judged", judged)
	rec.count("integrity_injections_expected_in_InCsumErrors", csumExpected)
	if !res.completed {
		d := ""
		for _, x := range res.xs {
			d += x.progress() + " "
		}
		rec.violation("C02 transfer did not complete within the virtual-time limit", d, sc)
	}
}

// corruptDgram derives from a valid datagram one that the integrity check is
// guaranteed to reject (certain == true), or a wire-level mutation whose
// rejection was confirmed with the reference implementation.
func corruptDgram(rng *vrng, spec *cipherSpec, ref *refCrypt, gcm cipher.AEAD, orig []byte) (out []byte, what string, certain bool) {
	out = append([]byte(nil), orig...)
	if gcm != nil {
		switch rng.intn(6) {
		case 0:
			out[rng.intn(len(out))] ^= byte(1 << rng.intn(8))
			return out, "aead-bit-flip", true
		case 1:
			i := rng.intn(len(out))
			out[i] ^= byte(1 + rng.intn(255))
			return out, "aead-byte-change", true
		case 2:
			if len(out) > 29 {
				return out[:rng.between(28, len(out)-1)], "aead-truncated", true
			}
			return out[:rng.intn(28)], "shorter-than-header", true
		case 3:
			if len(out) >= mtuLimit {
				// the receiver reads at most mtuLimit bytes of a datagram (as any UDP
				// read into a buffer of that size): bytes appended beyond that never
				// reach it and what it sees is the valid original
				return out, "aead-extended-beyond-the-read-buffer", false
			}
			return append(out, rng.bytes(rng.between(1, 20))...), "aead-extended", true
		case 4:
			return out[:rng.intn(28)], "shorter-than-header", true
		default:
			r := rng.bytes(rng.between(28, 200))
			return r, "random-bytes", aeadRejects(gcm, r)
		}
	}
	switch rng.intn(7) {
	case 0, 1:
		// burst of <= 32 bits inside the CRC-covered plaintext
		pt := ref.decrypt(orig)
		if len(pt) <= 20 {
			return out, "no-covered-bytes", false
		}
		covered := pt[20:]
		burst := rng.between(1, 32)
		startBit := rng.intn(len(covered)*8 - min(burst, len(covered)*8) + 1)
		// first and last bit of the burst are flipped, the ones between at random
		nb := min(burst, len(covered)*8)
		for b := 0; b < nb; b++ {
			if b == 0 || b == nb-1 || rng.chance(0.5) {
				bit := startBit + b
				covered[bit/8] ^= 1 << (bit % 8)
			}
		}
		return ref.encrypt(pt), "crc-burst-in-covered-plaintext", true
	case 2:
		pt := ref.decrypt(orig)
		if len(pt) < 20 {
			return out, "short", false
		}
		pt[16+rng.intn(4)] ^= byte(1 << rng.intn(8))
		return ref.encrypt(pt), "stored-crc-altered", true
	case 3:
		return out[:rng.intn(20)], "shorter-than-header", true
	case 4:
		// wire-level bit flip, judged by the reference decrypt + CRC
		out[rng.intn(len(out))] ^= byte(1 << rng.intn(8))
		return out, "wire-bit-flip", crcRejects(ref, out)
	case 5:
		if len(out) > 21 {
			out = out[:rng.between(20, len(out)-1)]
		}
		return out, "wire-truncated", crcRejects(ref, out)
	default:
		out = rng.bytes(rng.between(20, 300))
		return out, "random-bytes", crcRejects(ref, out)
	}
}

func crcRejects(ref *refCrypt, data []byte) bool {
	if len(data) < 20 {
		return true
	}
	pt := ref.decrypt(data)
	return crc32.ChecksumIEEE(pt[20:]) != binary.LittleEndian.Uint32(pt[16:20])
}

func aeadRejects(gcm cipher.AEAD, data []byte) bool {
	if len(data) < 28 {
		return true
	}
	_, err := gcm.Open(nil, data[:12], data[12:], nil)
	return err != nil
}

var _ = fmt.Sprint
