//go:build verif

package kcp

// C16 — FEC ratio mismatch is harmless and the decoder converges to the
// peer's ratio; matching configurations never retune.

import (
	"fmt"
	"testing"
	"testing/synctest"
)

// feedRun feeds consecutive groups of enc to dec until the decoder adopted
// (d,p) or limit packets were fed; returns the number of packets fed.
func convergeRun(enc *fecEncoder, dec *fecDecoder, rng *vrng, limit int) (fed int, ok bool) {
	const maxPayload = 400
	d, p := enc.dataShards, enc.parityShards
	for fed < limit {
		g, msg := makeGroup(enc, sizeVector("kcp-like", d, rng, maxPayload), rng, fecNoSkip)
		if msg != "" {
			return fed, false
		}
		for _, pk := range g.pkts {
			rec := dec.decode(fecPacket(append([]byte(nil), pk...)))
			for _, r := range rec {
				defaultBufferPool.Put(r)
			}
			fed++
			if dec.dataShards == d && dec.parityShards == p && !dec.shouldTune {
				return fed, true
			}
			if fed >= limit {
				break
			}
		}
	}
	return fed, dec.dataShards == d && dec.parityShards == p && !dec.shouldTune
}

var c16Largest = [][2]int{{250, 5}, {254, 1}, {128, 127}, {1, 254}, {253, 1}, {127, 127}, {3, 251}, {200, 53}, {252, 1}, {10, 243}, {251, 1}, {125, 126}}

func TestVerifC16(t *testing.T) {
	rec := newRec(t, "C16")
	defer rec.finish(t)
	env := rec.env
	var caseIdx int64
	const maxPayload = 400

	type pair struct{ ds, ps, dr, pr int }
	var pairs []pair
	lim := 4
	for ds := 1; ds <= lim; ds++ {
		for ps := 1; ps <= lim; ps++ {
			for dr := 1; dr <= lim; dr++ {
				for pr := 1; pr <= lim; pr++ {
					if ds != dr || ps != pr {
						pairs = append(pairs, pair{ds, ps, dr, pr})
					}
				}
			}
		}
	}
	nSampled := env.pickN(96, 1500)
	total := len(pairs) + nSampled
	for q := 0; q < total; q++ {
		idx := caseIdx
		caseIdx++
		if !env.mine(idx) {
			continue
		}
		rng := rec.seed(uint64(idx), 16)
		var pr pair
		part := "convergence-exhaustive-small"
		if q < len(pairs) {
			pr = pairs[q]
		} else {
			part = "convergence-sampled"
			tot := rng.between(2, 255)
			pr.ds = rng.between(1, tot-1)
			pr.ps = tot - pr.ds
			// the largest groups the statement covers (d+p = 255) and their
			// neighbours first: the detection window is only just long enough
			if k := q - len(pairs); k < len(c16Largest) {
				pr.ds, pr.ps = c16Largest[k][0], c16Largest[k][1]
			}
			if rng.chance(0.3) {
				pr.dr, pr.pr = 1, 1 // the decoder a FEC-less receiver creates lazily
			} else {
				t2 := rng.between(2, 255)
				pr.dr = rng.between(1, t2-1)
				pr.pr = t2 - pr.dr
			}
			if pr.dr == pr.ds && pr.pr == pr.ps {
				pr.dr, pr.pr = 1, 1
				if pr.ds == 1 && pr.ps == 1 {
					pr.ds = 2
				}
			}
		}
		n := pr.ds + pr.ps
		desc := map[string]any{"part": part, "case": idx, "sender": [2]int{pr.ds, pr.ps}, "receiver": [2]int{pr.dr, pr.pr}}
		rec.beginCase(desc)
		rec.guard(desc, func() {
			bound := 258 + 2*n
			// every starting offset inside a group (small n) or a sample of them
			offsets := []int{}
			if n <= 8 {
				for o := 0; o < n; o++ {
					offsets = append(offsets, o)
				}
			} else {
				offsets = []int{0, 1, rng.intn(n), n - 1}
			}
			worst := 0
			for _, off := range offsets {
				for _, prefix := range []string{"fresh", "polluted"} {
					enc := newFECEncoder(pr.ds, pr.ps, 0)
					dec := newFECDecoder(pr.dr, pr.pr)
					if enc == nil || dec == nil {
						rec.violation("C16 codec constructor returned nil", fmt.Sprint(pr), desc)
						return
					}
					enc.next = uint32(n) * uint32(rng.between(0, 1<<20))
					if prefix == "polluted" {
						// arbitrary lossy / duplicated / reordered prefix
						var pool [][]byte
						for g := 0; g < rng.between(1, 400/n+2); g++ {
							grp, _ := makeGroup(enc, sizeVector("kcp-like", pr.ds, rng, maxPayload), rng, fecNoSkip)
							pool = append(pool, grp.pkts...)
						}
						for i := range pool {
							j := i + rng.intn(8)
							if j < len(pool) {
								pool[i], pool[j] = pool[j], pool[i]
							}
						}
						for _, pk := range pool {
							c := 1
							if x := rng.intn(10); x < 3 {
								c = 0
							} else if x == 9 {
								c = 2
							}
							for ; c > 0; c-- {
								for _, r := range dec.decode(fecPacket(append([]byte(nil), pk...))) {
									defaultBufferPool.Put(r)
								}
							}
						}
						// leave a gap so that the run really starts anywhere
						for g := 0; g < rng.between(0, 3); g++ {
							makeGroup(enc, sizeVector("kcp-like", pr.ds, rng, maxPayload), rng, fecNoSkip)
						}
					}
					// start the uninterrupted run at offset off inside a group:
					// consume 'off' packets of the group silently
					if off > 0 {
						grp, _ := makeGroup(enc, sizeVector("kcp-like", pr.ds, rng, maxPayload), rng, fecNoSkip)
						fedHere := 0
						for i, pk := range grp.pkts {
							if i < off {
								continue
							}
							for _, r := range dec.decode(fecPacket(append([]byte(nil), pk...))) {
								defaultBufferPool.Put(r)
							}
							fedHere++
						}
						fed, ok := convergeRun(enc, dec, rng, bound-fedHere)
						fed += fedHere
						if ok || (dec.dataShards == pr.ds && dec.parityShards == pr.ps) {
							if fed > worst {
								worst = fed
							}
						} else {
							rec.violationf(desc, "C16 decoder did not adopt the sender's ratio within 258+2(d+p) packets of an uninterrupted run", "sender %d+%d receiver %d+%d, run starting at offset %d of a group after a %s history: after %d packets the decoder uses %d+%d (shouldTune=%v), bound %d", pr.ds, pr.ps, pr.dr, pr.pr, off, prefix, fed, dec.dataShards, dec.parityShards, dec.shouldTune, bound)
							return
						}
					} else {
						fed, ok := convergeRun(enc, dec, rng, bound)
						if !ok {
							rec.violationf(desc, "C16 decoder did not adopt the sender's ratio within 258+2(d+p) packets of an uninterrupted run", "sender %d+%d receiver %d+%d, group-aligned run after a %s history: after %d packets the decoder uses %d+%d (shouldTune=%v), bound %d", pr.ds, pr.ps, pr.dr, pr.pr, prefix, fed, dec.dataShards, dec.parityShards, dec.shouldTune, bound)
							return
						}
						if fed > worst {
							worst = fed
						}
					}
					rec.eval(1)
					rec.count("convergence_runs", 1)
					// from then on losses are recovered (C07 oracle)
					recovered := 0
					for g := 0; g < 3; g++ {
						grp, msg := makeGroup(enc, sizeVector("kcp-like", pr.ds, rng, maxPayload), rng, fecNoSkip)
						if msg != "" {
							break
						}
						o := newGroupOracle(&grp)
						order := rng.perm(n)
						drop := rng.intn(pr.ps + 1)
						if g == 0 {
							drop = min(pr.ps, 1)
						}
						for _, i := range order[drop:] {
							if key, detail := o.feed(dec, i, true); key != "" {
								rec.violation("C16 [after convergence] "+key, detail, desc)
								return
							}
						}
						recovered += o.emitted
					}
					// ... also when the stream later reaches the id wrap: jump there
					// (as if time had passed) and cross it with losses
					if rng.chance(0.5) {
						enc.next = enc.paws - uint32(n*rng.between(1, 3))
						for _, sh := range dec.shardSet {
							for _, pkt := range sh.elements {
								defaultBufferPool.Put(pkt)
							}
						}
						dec.shardSet = map[uint32]*shardHeap{}
						dec.newestShardId = enc.next/uint32(n) - 1
						for g := 0; g < 5; g++ {
							grp, msg := makeGroup(enc, sizeVector("kcp-like", pr.ds, rng, maxPayload), rng, fecNoSkip)
							if msg != "" {
								break
							}
							o := newGroupOracle(&grp)
							order := rng.perm(n)
							for _, i := range order[min(pr.ps, 1):] {
								if key, detail := o.feed(dec, i, true); key != "" {
									rec.violation("C16 [after convergence, at the id wrap] "+key, detail, desc)
									return
								}
							}
							recovered += o.emitted
						}
						rec.count("post_convergence_wrap_crossings", 1)
					}
					rec.count("packets_recovered_after_convergence", int64(recovered))
				}
			}
			rec.maxCount("max_packets_to_converge_minus_2(d+p)", int64(worst-2*n))
			rec.nontrivial(hashAny(desc))
		})
		rec.sample(part, 2, desc)
	}
	rec.note("exhaustive", true)
	rec.note("exhaustive_dimension", "all 240 unequal (sender d/p, receiver d/p) pairs with d,p<=4 x every starting offset inside a group x {fresh, polluted} decoder history; everything else sampled")

	// ---- stability: matching configuration, hostile arrival patterns -----------
	for q := 0; q < env.pickN(96, 800); q++ {
		idx := caseIdx
		caseIdx++
		if !env.mine(idx) {
			continue
		}
		rng := rec.seed(uint64(idx), 161)
		d, p := rng.between(1, 12), rng.between(1, 5)
		if q%10 == 0 {
			tot := rng.between(20, 255)
			d = rng.between(1, tot-1)
			p = tot - d
		}
		n := d + p
		depth := pick(rng, []int{1, 4, 30, 300})
		loss := pick(rng, []float64{0, 0.05, 0.3, 0.6})
		dup := pick(rng, []float64{0, 0.1, 0.3})
		desc := map[string]any{"part": "stability", "case": idx, "d": d, "p": p, "reorder_depth": depth, "loss": loss, "dup": dup}
		rec.beginCase(desc)
		rec.guard(desc, func() {
			enc := newFECEncoder(d, p, 0)
			dec := newFECDecoder(d, p)
			enc.next = uint32(n) * uint32(rng.between(0, 1<<20))
			if q%7 == 0 {
				enc.next = enc.paws - uint32(n*rng.between(1, 20))
			}
			resetDecoder(dec, enc.next)
			target := env.pickN(3000, 12000)
			var window [][]byte
			var oracles = map[uint32]*groupOracle{}
			fed, emitted := 0, 0
			for fed < target {
				rto := uint32(fecNoSkip)
				if rng.chance(0.1) {
					rto = 0 // the sender itself may skip parity
				}
				grp, msg := makeGroup(enc, sizeVector("kcp-like", d, rng, maxPayload), rng, rto)
				if msg != "" {
					rec.violation("C16 encoder: malformed group", msg, desc)
					return
				}
				g := grp
				oracles[g.base] = newGroupOracle(&g)
				for _, pk := range g.pkts {
					if rng.chance(loss) {
						continue
					}
					window = append(window, pk)
					if rng.chance(dup) {
						window = append(window, pk)
					}
				}
				// release from the reorder window
				for len(window) > depth || (len(window) > 0 && rng.chance(0.3)) {
					i := rng.intn(min(len(window), depth))
					pk := window[i]
					window = append(window[:i], window[i+1:]...)
					f := fecPacket(pk)
					base := f.seqid() - f.seqid()%uint32(n)
					o := oracles[base]
					pos := int(f.seqid() % uint32(n))
					if o == nil || pos >= len(o.g.pkts) {
						continue
					}
					if key, detail := o.feed(dec, pos, false); key != "" {
						rec.violation("C16 [matching configuration] "+key, detail, desc)
						return
					}
					fed++
					if dec.shouldTune || dec.dataShards != d || dec.parityShards != p {
						rec.violationf(desc, "C16 decoder with a matching configuration started retuning on genuine packets", "d=%d p=%d after %d packets: shouldTune=%v ratio %d+%d", d, p, fed, dec.shouldTune, dec.dataShards, dec.parityShards)
						return
					}
				}
			}
			for _, o := range oracles {
				emitted += o.emitted
			}
			rec.eval(1)
			rec.count("stability_runs", 1)
			rec.count("stability_packets_fed", int64(fed))
			rec.count("stability_packets_recovered", int64(emitted))
			if loss > 0 && emitted == 0 && depth < 300 && loss < 0.6 {
				rec.count("stability_runs_without_any_recovery", 1)
			}
			rec.nontrivial(hashAny(desc))
		})
		rec.sample("stability", 2, desc)
	}
	c16SessionPart(t, rec, &caseIdx)
}

// session level: different ratios at the two ends (or FEC at one end only) on a
// lossy link: the stream stays intact (C01 oracle) and the decoders end up with
// the peer's ratio.
func c16SessionPart(t *testing.T, rec *vrec, caseIdx *int64) {
	env := rec.env
	rec.alsoOwn = append(rec.alsoOwn, "C01")
	for q := 0; q < env.pickN(16, 200); q++ {
		idx := *caseIdx
		*caseIdx++
		if !env.mine(idx) {
			continue
		}
		rng := rec.seed(uint64(idx), 162)
		sc := genSessScenario(rng, idx, "session-mismatch")
		sc.Link.D, sc.Link.P = rng.between(1, 10), rng.between(1, 3)
		sc.Link.SrvFEC = true
		switch rng.intn(4) {
		case 0:
			sc.Link.SD, sc.Link.SP = 0, 0 // FEC at the client only
		default:
			sc.Link.SD, sc.Link.SP = rng.between(1, 10), rng.between(1, 3)
		}
		// enough traffic for the sample window: >= 700 data packets each way
		for _, c := range []*sessCfg{&sc.CfgC, &sc.CfgS} {
			c.Mtu = pick(rng, []int{300, 400})
			c.SndWnd, c.RcvWnd = 128, 128
			c.WriteDelay = false
		}
		sc.BytesCS = 600 * 250
		sc.BytesSC = 600 * 250
		sc.WSizes = []int{200, 250, 220}
		sc.Net = netProfile{Name: "clean-then-lossy", Loss: 0.02 + rng.float()*0.05, DelayMin: 5, DelayMax: 15, HealAt: 600000, LossyFrom: pick(rng, []int{3000, 6000})}
		sc.LimitMs = 6 * 3600 * 1000
		rec.beginCase(sc)
		synctest.Test(t, func(t *testing.T) {
			var cd, cp, sd, sp int
			res := runSessScenario(t, rec, &sc, rng, nil)
			res.tally(rec)
			rec.eval(1)
			if res.client != nil && res.server != nil {
				res.client.mu.Lock()
				if dec := res.client.fecDecoder; dec != nil {
					cd, cp = dec.dataShards, dec.parityShards
				}
				res.client.mu.Unlock()
				res.server.mu.Lock()
				if dec := res.server.fecDecoder; dec != nil {
					sd, sp = dec.dataShards, dec.parityShards
				}
				res.server.mu.Unlock()
			}
			if !res.completed {
				d := ""
				for _, x := range res.xs {
					d += x.progress() + " "
				}
				rec.violation("C16 stream not delivered intact with differing FEC ratios", d, sc)
				return
			}
			// a decoder that has seen an uninterrupted run of 258+2(d+p) packets
			// (measured on the wire during the clean phase) must have adopted the
			// peer's ratio
			if res.maxRunC >= 258+2*(sc.Link.D+sc.Link.P)+2 {
				if sd != sc.Link.D || sp != sc.Link.P {
					rec.violationf(sc, "C16 session decoder did not adopt the peer's ratio after an uninterrupted run", "client sends %d+%d (uninterrupted run of %d ids in the clean phase), server decoder ended at %d+%d", sc.Link.D, sc.Link.P, res.maxRunC, sd, sp)
				} else {
					rec.count("session_server_decoder_converged", 1)
				}
			} else {
				rec.count("session_client_run_too_short_to_demand_convergence", 1)
			}
			if sc.Link.SD > 0 {
				if res.maxRunS >= 258+2*(sc.Link.SD+sc.Link.SP)+2 {
					if cd != sc.Link.SD || cp != sc.Link.SP {
						rec.violationf(sc, "C16 session decoder did not adopt the peer's ratio after an uninterrupted run", "server sends %d+%d (uninterrupted run of %d ids in the clean phase), client decoder ended at %d+%d", sc.Link.SD, sc.Link.SP, res.maxRunS, cd, cp)
					} else {
						rec.count("session_client_decoder_converged", 1)
					}
				} else {
					rec.count("session_server_run_too_short_to_demand_convergence", 1)
				}
			}
			if res.fecRecovered > 0 {
				rec.count("session_mismatch_scenarios_with_fec_recovery", 1)
			}
			rec.nontrivial(hashAny(sc))
		})
		rec.sample("session-mismatch", 2, sessBrief(&sc))
	}
}
