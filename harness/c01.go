//go:build verif

package kcp

// C01 — the reader sees a prefix of what was written.
// Monitor: content oracle F(stream, offset) evaluated at every Recv/Read
// return, message-boundary model in message mode.

import (
	"testing"
)

func TestVerifC01Core(t *testing.T) {
	rec := newRec(t, "C01")
	defer rec.finish(t)
	env := rec.env
	var caseIdx int64

	// ---- part 1: raw cores over a hostile scripted network ---------------------
	nCore := env.pickN(480, 24000)
	inBubble(t, func() {
		for q := 0; q < nCore; q++ {
			idx := caseIdx
			caseIdx++
			if !env.mine(idx) {
				continue
			}
			rng := rec.seed(uint64(idx), 1)
			sc := genCoreScenario(rng, idx, "core")
			rec.beginCase(sc)
			rec.guard(sc, func() {
				res := runCoreScenario(rec, &sc, rng, nil)
				res.tally(rec)
				rec.eval(1)
				if !res.completed {
					rec.violation("C02 transfer did not complete within the virtual-time limit", res.sim.progressSummary(), sc)
				}
				if res.nontrivial {
					rec.nontrivial(hashAny(sc))
				}
			})
			rec.sample("core", 3, scenarioBrief(&sc))
		}

		// ---- part 1b: messages at the fragment-count limit ------------------------
		// A message the core accepts must arrive with its boundaries, also when it
		// needs 254, 255, 256 ... fragments (the frg field is one byte).
		for q := 0; q < env.pickN(48, 960); q++ {
			idx := caseIdx
			caseIdx++
			if !env.mine(idx) {
				continue
			}
			rng := rec.seed(uint64(idx), 11)
			sc := genCoreScenario(rng, idx, "fragment-limit")
			sc.CfgA.Stream, sc.CfgB.Stream = false, false
			sc.CfgA.Mtu = pick(rng, []int{50, 64, 100})
			sc.CfgA.SndWnd, sc.CfgB.RcvWnd = 1024, 1024
			sc.AppB.TotalBytes = 0
			sc.AppA.Raw = true
			mss := sc.CfgA.mss()
			sc.AppA.TotalBytes = 0
			sc.AppA.Writes = nil
			for i := 0; i < rng.between(2, 5); i++ {
				frags := pick(rng, []int{1, 2, 254, 255, 256, 257, 300})
				size := frags*mss - pick(rng, []int{0, 0, 1, mss - 1})
				sc.AppA.Writes = append(sc.AppA.Writes, appWrite{rng.between(0, 50), size})
			}
			if sc.Net.Loss > 0.3 {
				sc.Net.Loss = 0.3
			}
			sc.AppB.ReadEvery = pick(rng, []int{0, 5})
			rec.beginCase(sc)
			rec.guard(sc, func() {
				installSimHooks()
				sc.AppA.expand(rng, mss, "")
				sc.AppB.expand(rng, sc.CfgB.mss(), "")
				s := newSimCore(rec, sc, sc.CfgA, sc.CfgB, sc.AppA, sc.AppB, sc.Net.fate(newRng(rng.u64())), 0, 0, 0)
				defer s.close()
				s.deadline = sc.LimitMs
				s.start()
				ok := s.run(s.complete)
				res := coreResult{completed: ok && s.complete(), sim: s}
				res.tally(rec)
				rec.eval(1)
				rec.count("fragment_limit_messages_refused", s.ends[0].wRefused)
				rec.count("fragment_limit_messages_accepted", int64(len(s.ends[0].wMsgs)))
				if !res.completed {
					rec.violation("C02 transfer did not complete within the virtual-time limit", s.progressSummary(), sc)
				}
				rec.nontrivial(hashAny(sc))
			})
			rec.sample("fragment-limit", 1, scenarioBrief(&sc))
		}

		// ---- part 1c: the application raises the MTU in mid-stream ------------------
		// Stream mode, a backlog cut for the old MSS still queued, then small
		// writes that fill the tail segment exactly now and then.
		for q := 0; q < env.pickN(48, 960); q++ {
			idx := caseIdx
			caseIdx++
			if !env.mine(idx) {
				continue
			}
			rng := rec.seed(uint64(idx), 12)
			sc := genCoreScenario(rng, idx, "mtu-raise-in-stream")
			sc.CfgA.Stream, sc.CfgB.Stream = true, true
			sc.CfgA.Mtu = pick(rng, []int{60, 100, 200})
			sc.CfgA.SndWnd, sc.CfgB.RcvWnd = 64, 64
			sc.CfgA.NC = 0 // the congestion window keeps most of the backlog in the send queue
			sc.Net = netProfile{Name: "slow-clean", DelayMin: rng.between(50, 300), HealAt: 1}
			sc.Net.DelayMax = sc.Net.DelayMin
			sc.AppB.TotalBytes = 0
			sc.AppA.Raw = rng.chance(0.5)
			oldMss := sc.CfgA.mss()
			sc.AppA.MtuRaiseAfter = rng.between(3, 10)
			sc.AppA.MtuRaiseTo = rng.between(sc.CfgA.Mtu+20, 600)
			sc.AppA.Writes = nil
			for i := 0; i < sc.AppA.MtuRaiseAfter; i++ {
				sc.AppA.Writes = append(sc.AppA.Writes, appWrite{0, rng.between(oldMss, 3*oldMss)})
			}
			for i := 0; i < rng.between(300, 1200); i++ {
				sc.AppA.Writes = append(sc.AppA.Writes, appWrite{0, rng.between(1, 4)})
			}
			rec.beginCase(sc)
			rec.guard(sc, func() {
				res := runCoreScenario(rec, &sc, rng, nil)
				res.tally(rec)
				rec.eval(1)
				rec.count("mtu_raise_in_stream_cases", 1)
				if !res.completed {
					rec.violation("C02 transfer did not complete within the virtual-time limit", res.sim.progressSummary(), sc)
				}
				rec.nontrivial(hashAny(sc))
			})
			rec.sample("mtu-raise-in-stream", 1, scenarioBrief(&sc))
		}

		// ---- part 2: refused Send must leave nothing queued ---------------------
		for q := 0; q < env.pickN(32, 320); q++ {
			idx := caseIdx
			caseIdx++
			if !env.mine(idx) {
				continue
			}
			rng := rec.seed(uint64(idx), 2)
			stream := q%2 == 0
			mtu := pick(rng, []int{50, 100, 576, 1400})
			desc := map[string]any{"case": idx, "part": "refused-send", "stream": stream, "mtu": mtu}
			rec.beginCase(desc)
			rec.guard(desc, func() {
				k := NewKCP(1, func([]byte, int) {})
				k.SetMtu(mtu)
				if stream {
					k.stream = 1
				}
				mss := int(k.mss)
				// something already queued, last segment partly filled
				pre := rng.between(1, 3*mss)
				k.Send(make([]byte, pre))
				queuedBytes := func() (n int) {
					for seg := range k.snd_queue.ForEach {
						n += len(seg.data)
					}
					return
				}
				b0, s0 := queuedBytes(), k.snd_queue.Len()
				big := make([]byte, 255*mss+rng.between(mss, 4*mss))
				r := k.Send(big)
				desc["pre_queued"] = pre
				desc["send_size"] = len(big)
				desc["send_result"] = r
				rec.eval(1)
				rec.count("refused_send_cases", 1)
				if r < 0 {
					if b1, s1 := queuedBytes(), k.snd_queue.Len(); b1 != b0 || s1 != s0 {
						mode := "message"
						if stream {
							mode = "stream"
						}
						rec.violationf(desc, "C01 core "+mode+" mode: Send refused the buffer but queued part of it", "Send(%d bytes)=%d with %d bytes queued before; afterwards %d bytes in %d segments (before %d segments): a writer told 'refused' has %d bytes delivered to the peer anyway", len(big), r, b0, b1, s1, s0, b1-b0)
					}
				} else {
					rec.count("oversized_send_accepted", 1)
				}
				if k.Send(nil) >= 0 {
					rec.violation("C01 core: empty Send accepted", "", desc)
				}
				rec.nontrivial(hashAny(desc))
				for seg := range k.snd_queue.ForEach {
					k.recycleSegment(seg)
				}
			})
			rec.sample("refused-send", 1, desc)
		}
	})
}

func TestVerifC01Sess(t *testing.T) {
	rec := newRec(t, "C01")
	defer rec.finish(t)
	// a pool buffer with two owners is how delivered bytes get altered: the
	// sanitizer's ownership reports decide C01 in these scenarios as well
	rec.alsoOwn = []string{"C15 pooled buffer"}
	var caseIdx int64 = 1 << 32
	c01SessionPart(t, rec, &caseIdx)
}
