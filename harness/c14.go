//go:build verif

package kcp

// C14 — concurrent use of sessions and listeners is free of data races.
// Decided by the Go race detector only (the driver runs this binary with
// GORACE=halt_on_error=0 log_path=..., counts and deduplicates the reports).
// Workload: real time, real goroutines, real scheduler, yields with random
// short sleeps at the H4 points; goroutines hammer every supported public
// method of UDPSession and Listener while traffic flows, over the in-memory
// transport and over real loopback UDP; sessions are closed and re-created
// throughout.

import (
	"fmt"
	"io"
	"net"
	"sync"
	"sync/atomic"
	"testing"
	"time"
)

var c14Methods = []string{
	"Read", "Write", "WriteBuffers", "Close", "LocalAddr", "RemoteAddr", "SetDeadline", "SetReadDeadline", "SetWriteDeadline",
	"SetWriteDelay", "SetWindowSize", "SetMtu", "SetACKNoDelay", "SetNoDelay", "SetRateLimit", "SetLogger", "SetDSCP",
	"SetReadBuffer", "SetWriteBuffer", "Control", "GetConv", "GetRTO", "GetSRTT", "GetSRTTVar", "SetOOBHandler", "GetOOBMaxSize", "SendOOB",
	"L.Accept", "L.SetDeadline", "L.SetReadDeadline", "L.SetWriteDeadline", "L.Close", "L.Control", "L.Addr", "L.SetReadBuffer", "L.SetWriteBuffer", "L.SetDSCP",
}

type overlapMatrix struct {
	active [64]atomic.Int32
	pairs  [64][64]atomic.Bool
	calls  [64]atomic.Int64
}

func (m *overlapMatrix) enter(i int) {
	m.calls[i].Add(1)
	for j := range c14Methods {
		if m.active[j].Load() > 0 {
			m.pairs[i][j].Store(true)
			m.pairs[j][i].Store(true)
		}
	}
	m.active[i].Add(1)
}
func (m *overlapMatrix) leave(i int) { m.active[i].Add(-1) }

func methodIndex(name string) int {
	for i, n := range c14Methods {
		if n == name {
			return i
		}
	}
	panic(name)
}

func TestVerifC14(t *testing.T) {
	rec := newRec(t, "C14")
	defer rec.finish(t)
	env := rec.env
	installHooks()
	schedBubbleMode.Store(false)
	sanEnabled.Store(true)
	yieldMode.Store(2)
	defer yieldMode.Store(0)
	var matrix overlapMatrix
	rounds := env.pickN(48, 960)
	var caseIdx int64
	for r := 0; r < rounds; r++ {
		idx := caseIdx
		caseIdx++
		if !env.mine(idx) {
			continue
		}
		rng := rec.seed(uint64(idx), 14)
		cipherName := cipherNames[r%len(cipherNames)]
		fec := (r/len(cipherNames))%2 == 0
		realUDP := r%3 == 2
		desc := map[string]any{"case": idx, "cipher": cipherName, "fec": fec, "transport": map[bool]string{true: "loopback-udp", false: "in-memory"}[realUDP], "clients": 1 + r%3}
		rec.beginCase(desc)
		setCurrent(rec, desc)
		runC14Round(rec, desc, rng, &matrix, cipherName, fec, realUDP, 1+r%3, time.Duration(env.pickN(1200, 2500))*time.Millisecond)
		c14Entropy(rec, rng)
		rec.eval(1)
		rec.nontrivial(hashAny(desc))
		rec.sample("round", 2, desc)
		sanReset()
	}
	pairs := 0
	for i := range c14Methods {
		rec.count("calls_"+c14Methods[i], matrix.calls[i].Load())
		for j := i; j < len(c14Methods); j++ {
			if matrix.pairs[i][j].Load() {
				pairs++
			}
		}
	}
	rec.maxCount("max_method_pairs_overlapping_in_time_in_one_shard", int64(pairs))
	rec.note("method_pairs_possible", len(c14Methods)*(len(c14Methods)+1)/2)
	for i := 1; i <= 8; i++ {
		rec.count(fmt.Sprintf("yield_point_%d_reached", i), yieldCounts[i].Load())
	}
	sanTally(rec)
}

// c14ArmReseed puts a generator where it is after 2^24 reads: the next read
// reseeds it. Done under the generator's own mutex.
func c14ArmReseed(r io.Reader) bool {
	switch g := r.(type) {
	case *rngAES:
		g.mutex.Lock()
		g.count = reseedInterval
		g.mutex.Unlock()
	case *rngChacha8:
		g.mutex.Lock()
		g.count = reseedInterval
		g.mutex.Unlock()
	default:
		return false
	}
	return true
}

// c14Entropy: concurrent readers of one generator of each kind across reseeds.
func c14Entropy(rec *vrec, rng *vrng) {
	for _, g := range []io.Reader{NewEntropyAES(), NewEntropyChacha8()} {
		var wg sync.WaitGroup
		stop := make(chan struct{})
		var reads atomic.Int64
		for i := 0; i < 4; i++ {
			wg.Add(1)
			go func() {
				defer wg.Done()
				buf := make([]byte, 16)
				for {
					select {
					case <-stop:
						return
					default:
					}
					io.ReadFull(g, buf)
					reads.Add(1)
				}
			}()
		}
		for i := 0; i < 200; i++ {
			c14ArmReseed(g)
			time.Sleep(time.Duration(rng.between(20, 200)) * time.Microsecond)
		}
		close(stop)
		wg.Wait()
		rec.count("entropy_reads_across_forced_reseeds", reads.Load())
	}
}

func runC14Round(rec *vrec, desc map[string]any, rng *vrng, m *overlapMatrix, cipherName string, fec, realUDP bool, nclients int, dur time.Duration) {
	spec := cipherByName(cipherName)
	var key []byte
	mk := func() BlockCrypt {
		if spec == nil {
			return nil
		}
		b, _ := spec.mk(key)
		return b
	}
	if spec != nil {
		key = rng.bytes(spec.keyLen)
	}
	d, p := 0, 0
	if fec {
		d, p = 3, 2
	}
	var l *Listener
	var hub *simHub
	var lcIn *simConn
	var dial func(i int) *UDPSession
	if realUDP {
		var err error
		l, err = ListenWithOptions("127.0.0.1:0", mk(), d, p)
		if err != nil {
			rec.inconcl("listen: " + err.Error())
			return
		}
		dial = func(i int) *UDPSession {
			s, err := DialWithOptions(l.Addr().String(), mk(), d, p)
			if err != nil {
				return nil
			}
			return s
		}
	} else {
		hub = newSimHub(func(from, to string, nth int, now int64, data []byte) []int {
			if nth%17 == 3 {
				return nil
			}
			return []int{nth % 3}
		})
		defer hub.stop()
		lc := hub.listen(simUDPAddr(1, 4000))
		lcIn = lc
		l, _ = ServeConn(mk(), d, p, lc)
		defer lc.Close()
		dial = func(i int) *UDPSession {
			cc := hub.listen(simUDPAddr(byte(10+i%200), 5000+i))
			s, _ := NewConn3(uint32(1000+i), lc.addr, mk(), d, p, cc)
			// the harness owns cc; close it when the round ends
			time.AfterFunc(dur+2*time.Second, func() { cc.Close() })
			return s
		}
	}
	stop := make(chan struct{})
	var wg sync.WaitGroup
	// the shared nonce generator reseeds itself every 2^24 reads: bring that
	// moment about all the time, with sessions drawing nonces around it
	wg.Add(1)
	ar := newRng(rng.u64())
	go func() {
		defer wg.Done()
		for {
			select {
			case <-stop:
				return
			case <-time.After(time.Duration(ar.between(200, 2000)) * time.Microsecond):
			}
			if c14ArmReseed(entropy) {
				rec.count("nonce_generator_reseeds_forced", 1)
			}
		}
	}()
	call := func(name string, f func()) {
		i := methodIndex(name)
		m.enter(i)
		f()
		m.leave(i)
	}
	future := func(r *vrng) time.Time {
		switch r.intn(4) {
		case 0:
			return time.Time{}
		case 1:
			return time.Now().Add(-time.Millisecond)
		default:
			return time.Now().Add(time.Duration(r.between(1, 50)) * time.Millisecond)
		}
	}
	// hammer one session with every supported method
	hammer := func(s *UDPSession, seed uint64, closer bool, done chan struct{}) {
		defer wg.Done()
		r := newRng(seed)
		buf := make([]byte, 2000)
		for {
			select {
			case <-stop:
				return
			case <-done:
				return
			default:
			}
			switch c14Methods[r.intn(27)] {
			case "Read":
				call("Read", func() { s.SetReadDeadline(time.Now().Add(5 * time.Millisecond)); s.Read(buf[:r.between(1, 2000)]) })
			case "Write":
				call("Write", func() { s.SetWriteDeadline(time.Now().Add(5 * time.Millisecond)); s.Write(buf[:r.between(1, 1800)]) })
			case "WriteBuffers":
				call("WriteBuffers", func() { s.WriteBuffers([][]byte{buf[:r.between(1, 300)], buf[:r.between(1, 1500)]}) })
			case "Close":
				if closer && r.intn(200) == 0 {
					call("Close", func() { s.Close() })
				}
			case "LocalAddr":
				call("LocalAddr", func() { _ = s.LocalAddr().String() })
			case "RemoteAddr":
				call("RemoteAddr", func() { _ = s.RemoteAddr().String() })
			case "SetDeadline":
				call("SetDeadline", func() { s.SetDeadline(future(r)) })
			case "SetReadDeadline":
				call("SetReadDeadline", func() { s.SetReadDeadline(future(r)) })
			case "SetWriteDeadline":
				call("SetWriteDeadline", func() { s.SetWriteDeadline(future(r)) })
			case "SetWriteDelay":
				call("SetWriteDelay", func() { s.SetWriteDelay(r.chance(0.5)) })
			case "SetWindowSize":
				call("SetWindowSize", func() { s.SetWindowSize(r.between(1, 256), r.between(1, 256)) })
			case "SetMtu":
				call("SetMtu", func() { s.SetMtu(r.between(200, 1500)) })
			case "SetACKNoDelay":
				call("SetACKNoDelay", func() { s.SetACKNoDelay(r.chance(0.5)) })
			case "SetNoDelay":
				call("SetNoDelay", func() { s.SetNoDelay(r.intn(2), r.between(10, 40), r.intn(3), r.intn(2)) })
			case "SetRateLimit":
				call("SetRateLimit", func() { s.SetRateLimit(pick(r, []uint32{0, 0, 50 << 20, 500 << 20})) })
			case "SetLogger":
				call("SetLogger", func() {
					if r.chance(0.5) {
						s.SetLogger(IKCP_LOG_ALL, func(string, ...any) {})
					} else {
						s.SetLogger(0, nil)
					}
				})
			case "SetDSCP":
				call("SetDSCP", func() { s.SetDSCP(r.intn(64)) })
			case "SetReadBuffer":
				call("SetReadBuffer", func() { s.SetReadBuffer(1 << 20) })
			case "SetWriteBuffer":
				call("SetWriteBuffer", func() { s.SetWriteBuffer(1 << 20) })
			case "Control":
				call("Control", func() { s.Control(func(net.PacketConn) error { return nil }) })
			case "GetConv":
				call("GetConv", func() { _ = s.GetConv() })
			case "GetRTO":
				call("GetRTO", func() { _ = s.GetRTO() })
			case "GetSRTT":
				call("GetSRTT", func() { _ = s.GetSRTT() })
			case "GetSRTTVar":
				call("GetSRTTVar", func() { _ = s.GetSRTTVar() })
			case "SetOOBHandler":
				call("SetOOBHandler", func() {
					if r.chance(0.3) {
						s.SetOOBHandler(nil)
					} else {
						s.SetOOBHandler(func([]byte) {})
					}
				})
			case "GetOOBMaxSize":
				call("GetOOBMaxSize", func() { _ = s.GetOOBMaxSize() })
			case "SendOOB":
				call("SendOOB", func() { s.SendOOB(buf[:r.intn(200)]) })
			}
		}
	}
	hammerListener := func(seed uint64) {
		defer wg.Done()
		r := newRng(seed)
		for {
			select {
			case <-stop:
				return
			default:
			}
			switch r.intn(9) {
			case 0:
				call("L.SetDeadline", func() { l.SetDeadline(future(r)) })
			case 1:
				call("L.SetReadDeadline", func() { l.SetReadDeadline(future(r)) })
			case 2:
				call("L.SetWriteDeadline", func() { l.SetWriteDeadline(future(r)) })
			case 3:
				call("L.Control", func() { l.Control(func(net.PacketConn) error { return nil }) })
			case 4:
				call("L.Addr", func() { _ = l.Addr().String() })
			case 5:
				call("L.SetReadBuffer", func() { l.SetReadBuffer(1 << 20) })
			case 6:
				call("L.SetWriteBuffer", func() { l.SetWriteBuffer(1 << 20) })
			case 7:
				call("L.SetDSCP", func() { l.SetDSCP(r.intn(64)) })
			default:
				time.Sleep(50 * time.Microsecond)
			}
		}
	}
	// acceptors: each accepted session is hammered too
	var nAccepted atomic.Int64
	for a := 0; a < 2; a++ {
		wg.Add(1)
		go func(a int) {
			defer wg.Done()
			for {
				select {
				case <-stop:
					return
				default:
				}
				var s *UDPSession
				var err error
				call("L.Accept", func() { s, err = l.AcceptKCP() })
				if err != nil {
					if classify(0, err) == "closed" {
						return
					}
					continue
				}
				n := nAccepted.Add(1)
				for h := 0; h < 3; h++ {
					wg.Add(1)
					go hammer(s, uint64(n)*131+uint64(h), true, nil)
				}
				// close it at the end of the round at the latest
				wg.Add(1)
				go func() { defer wg.Done(); <-stop; s.Close() }()
			}
		}(a)
	}
	for h := 0; h < 2; h++ {
		wg.Add(1)
		go hammerListener(rng.u64())
	}
	// clients, re-created throughout the round
	var nClients atomic.Int64
	for c := 0; c < nclients; c++ {
		wg.Add(1)
		go func(c int) {
			defer wg.Done()
			gen := 0
			for {
				select {
				case <-stop:
					return
				default:
				}
				s := dial(c*1000 + gen)
				gen++
				if s == nil {
					time.Sleep(time.Millisecond)
					continue
				}
				nClients.Add(1)
				life := time.Duration(150+c*211) * time.Millisecond
				done := make(chan struct{})
				var hw sync.WaitGroup
				for h := 0; h < 4; h++ {
					hw.Add(1)
					wg.Add(1)
					go func(h int) {
						defer hw.Done()
						hammer(s, uint64(c*7919+gen*31+h), false, done)
					}(h)
				}
				select {
				case <-time.After(life):
				case <-stop:
				}
				close(done)
				s.Close()
				hw.Wait()
			}
		}(c)
	}
	time.Sleep(dur)
	// the listener's socket fails / closes while its sessions are still in use
	// and are closed shortly afterwards (the ordinary server shutdown)
	if lcIn != nil && rng.chance(0.5) {
		lcIn.failReads(errSimInjected)
	}
	call("L.Close", func() { l.Close() })
	time.Sleep(time.Duration(rng.between(1, 8)) * time.Millisecond)
	close(stop)
	wg.Wait()
	rec.count("sessions_dialled", nClients.Load())
	rec.count("sessions_accepted", nAccepted.Load())
	rec.count("rounds_"+desc["transport"].(string), 1)
}

