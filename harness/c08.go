//go:build verif

package kcp

// C08 — ciphers round-trip every length and equal textbook CFB.
// Monitor: reference implementations from crypto/cipher (CFB), x/crypto
// (salsa20), the documented xor table and stdlib GCM, compared with the
// package's BlockCrypt on every length 0..1500, in place and into a separate
// buffer with canaries around the destination; a concurrent part shares one
// BlockCrypt between goroutines under the race detector.

import (
	"bytes"
	"crypto/aes"
	"crypto/cipher"
	"crypto/des"
	"crypto/sha1"
	"fmt"
	"sync"
	"testing"
	"unsafe"

	"github.com/tjfoc/gmsm/sm4"
	"golang.org/x/crypto/blowfish"
	"golang.org/x/crypto/cast5"
	"golang.org/x/crypto/pbkdf2"
	"golang.org/x/crypto/salsa20"
	"golang.org/x/crypto/tea"
	"golang.org/x/crypto/twofish"
	"golang.org/x/crypto/xtea"
)

type cipherSpec struct {
	name   string
	keyLen int
	mk     func(key []byte) (BlockCrypt, error)
	// refBlock builds the reference block cipher (nil for non-block ciphers)
	refBlock func(key []byte) (cipher.Block, error)
	kind     string // "cfb", "salsa20", "xor", "none", "aead"
}

func allCipherSpecs() []cipherSpec {
	return []cipherSpec{
		{"aes-128", 16, NewAESBlockCrypt, func(k []byte) (cipher.Block, error) { return aes.NewCipher(k) }, "cfb"},
		{"aes-192", 24, NewAESBlockCrypt, func(k []byte) (cipher.Block, error) { return aes.NewCipher(k) }, "cfb"},
		{"aes-256", 32, NewAESBlockCrypt, func(k []byte) (cipher.Block, error) { return aes.NewCipher(k) }, "cfb"},
		{"sm4", 16, NewSM4BlockCrypt, func(k []byte) (cipher.Block, error) { return sm4.NewCipher(k) }, "cfb"},
		{"twofish", 32, NewTwofishBlockCrypt, func(k []byte) (cipher.Block, error) { return twofish.NewCipher(k) }, "cfb"},
		{"3des", 24, NewTripleDESBlockCrypt, func(k []byte) (cipher.Block, error) { return des.NewTripleDESCipher(k) }, "cfb"},
		{"cast5", 16, NewCast5BlockCrypt, func(k []byte) (cipher.Block, error) { return cast5.NewCipher(k) }, "cfb"},
		{"blowfish", 32, NewBlowfishBlockCrypt, func(k []byte) (cipher.Block, error) { return blowfish.NewCipher(k) }, "cfb"},
		{"tea", 16, NewTEABlockCrypt, func(k []byte) (cipher.Block, error) { return tea.NewCipherWithRounds(k, 16) }, "cfb"},
		{"xtea", 16, NewXTEABlockCrypt, func(k []byte) (cipher.Block, error) { return xtea.NewCipher(k) }, "cfb"},
		{"salsa20", 32, NewSalsa20BlockCrypt, nil, "salsa20"},
		{"xor", 32, NewSimpleXORBlockCrypt, nil, "xor"},
		{"none", 32, NewNoneBlockCrypt, nil, "none"},
		{"aes-128-gcm", 16, NewAESGCMCrypt, nil, "aead"},
		{"aes-256-gcm", 32, NewAESGCMCrypt, nil, "aead"},
	}
}

// refCrypt is the reference transformation for the non-AEAD ciphers.
type refCrypt struct {
	spec cipherSpec
	key  []byte
	blk  cipher.Block
	xtbl []byte
}

func newRefCrypt(spec cipherSpec, key []byte) (*refCrypt, error) {
	r := &refCrypt{spec: spec, key: key}
	switch spec.kind {
	case "cfb":
		b, err := spec.refBlock(key)
		if err != nil {
			return nil, err
		}
		r.blk = b
	case "xor":
		// documented construction: PBKDF2-SHA1(key, salt, 32 iterations) expanded
		// to one MTU of key stream
		r.xtbl = pbkdf2.Key(key, []byte(`sH3CIVoF#rWLtJo6`), 32, 1500, sha1.New)
	}
	return r, nil
}

var refIV = []byte{167, 115, 79, 156, 18, 172, 27, 1, 164, 21, 242, 193, 252, 120, 230, 107}

func (r *refCrypt) encrypt(src []byte) []byte {
	out := make([]byte, len(src))
	switch r.spec.kind {
	case "cfb":
		cipher.NewCFBEncrypter(r.blk, refIV[:r.blk.BlockSize()]).XORKeyStream(out, src)
	case "salsa20":
		if len(src) < 8 {
			// no room for the 8-byte nonce: the only length-preserving,
			// invertible choice is the identity
			copy(out, src)
			return out
		}
		var k [32]byte
		copy(k[:], r.key)
		copy(out[:8], src[:8])
		salsa20.XORKeyStream(out[8:], src[8:], src[:8], &k)
	case "xor":
		for i := range src {
			out[i] = src[i] ^ r.xtbl[i]
		}
	case "none":
		copy(out, src)
	}
	return out
}

func (r *refCrypt) decrypt(src []byte) []byte {
	out := make([]byte, len(src))
	switch r.spec.kind {
	case "cfb":
		cipher.NewCFBDecrypter(r.blk, refIV[:r.blk.BlockSize()]).XORKeyStream(out, src)
	default:
		return r.encrypt(src) // involutions
	}
	return out
}

func lenClass(n int) string {
	switch {
	case n == 0:
		return "len=0"
	case n < 8:
		return "len<8"
	default:
		return "len>=8"
	}
}

const canaryByte = 0xA5

// cryptOne checks one (cipher instance, plaintext) pair in both aliasing modes
// against the reference. Returns the number of comparisons made.
func cryptOne(rec *vrec, desc map[string]any, spec cipherSpec, bc BlockCrypt, ref *refCrypt, plain []byte) int64 {
	n := len(plain)
	wantCT := ref.encrypt(plain)
	var cmp int64
	report := func(what, mode string, detail string) {
		d := map[string]any{}
		for k, v := range desc {
			d[k] = v
		}
		d["len"] = n
		d["mode"] = mode
		rec.violation(fmt.Sprintf("C08 %s %s %s %s", spec.name, what, mode, lenClass(n)), detail, d)
	}
	for _, mode := range []string{"in-place", "separate"} {
		// buffers with canaries on both sides
		const pad = 32
		srcBack := make([]byte, pad+n+pad)
		for i := range srcBack {
			srcBack[i] = canaryByte
		}
		copy(srcBack[pad:], plain)
		src := srcBack[pad : pad+n : pad+n]
		var dst, dstBack []byte
		if mode == "in-place" {
			dst, dstBack = src, srcBack
		} else {
			dstBack = make([]byte, pad+n+pad)
			for i := range dstBack {
				dstBack[i] = canaryByte
			}
			dst = dstBack[pad : pad+n : pad+n]
		}
		bc.Encrypt(dst, src)
		cmp++
		if !bytes.Equal(dst, wantCT) {
			report("encrypt!=reference", mode, fmt.Sprintf("len %d: first difference at byte %d", n, firstDiff(dst, wantCT)))
		}
		if !canariesIntact(dstBack, pad, n) {
			report("encrypt wrote outside dst", mode, fmt.Sprintf("len %d", n))
		}
		if mode == "separate" && (!bytes.Equal(src, plain) || !canariesIntact(srcBack, pad, n)) {
			report("encrypt modified src", mode, fmt.Sprintf("len %d", n))
		}
		// now decrypt what the package produced (round trip) ...
		ct := append([]byte(nil), dst...)
		ctBack := make([]byte, pad+n+pad)
		for i := range ctBack {
			ctBack[i] = canaryByte
		}
		copy(ctBack[pad:], ct)
		csrc := ctBack[pad : pad+n : pad+n]
		var out, outBack []byte
		if mode == "in-place" {
			out, outBack = csrc, ctBack
		} else {
			outBack = make([]byte, pad+n+pad)
			for i := range outBack {
				outBack[i] = canaryByte
			}
			out = outBack[pad : pad+n : pad+n]
		}
		bc.Decrypt(out, csrc)
		cmp++
		if !bytes.Equal(out, plain) {
			report("roundtrip", mode, fmt.Sprintf("len %d: Decrypt(Encrypt(x)) != x, first difference at byte %d", n, firstDiff(out, plain)))
		}
		if !canariesIntact(outBack, pad, n) {
			report("decrypt wrote outside dst", mode, fmt.Sprintf("len %d", n))
		}
		if mode == "separate" && (!bytes.Equal(csrc, ct) || !canariesIntact(ctBack, pad, n)) {
			report("decrypt modified src", mode, fmt.Sprintf("len %d", n))
		}
		// ... and decrypt the reference ciphertext (interoperability)
		rsrc := append([]byte(nil), wantCT...)
		rout := rsrc
		if mode == "separate" {
			rout = make([]byte, n)
		}
		bc.Decrypt(rout, rsrc)
		cmp++
		if !bytes.Equal(rout, plain) {
			report("decrypt(reference ciphertext)", mode, fmt.Sprintf("len %d: first difference at byte %d", n, firstDiff(rout, plain)))
		}
	}
	return cmp
}

func firstDiff(a, b []byte) int {
	for i := 0; i < len(a) && i < len(b); i++ {
		if a[i] != b[i] {
			return i
		}
	}
	if len(a) != len(b) {
		return min(len(a), len(b))
	}
	return -1
}

func canariesIntact(back []byte, pad, n int) bool {
	for i := 0; i < pad; i++ {
		if back[i] != canaryByte || back[pad+n+i] != canaryByte {
			return false
		}
	}
	return true
}

// aeadOne checks sealing/opening inside a packet-shaped buffer exactly as the
// session does it.
func aeadOne(rec *vrec, desc map[string]any, spec cipherSpec, bc BlockCrypt, key []byte, payload []byte, rng *vrng) int64 {
	a := bc.(*aeadCrypt)
	ns, ov := a.NonceSize(), a.Overhead()
	n := len(payload)
	report := func(what, detail string) {
		d := map[string]any{}
		for k, v := range desc {
			d[k] = v
		}
		d["len"] = n
		rec.violation(fmt.Sprintf("C08 %s %s", spec.name, what), detail, d)
	}
	var cmp int64
	// packet buffer as the pool hands it out: capacity 1500
	buf := make([]byte, 1500)
	if ns+n+ov > 1500 {
		return 0
	}
	pkt := buf[:ns+n]
	rng.fill(pkt[:ns])
	copy(pkt[ns:], payload)
	nonce := append([]byte(nil), pkt[:ns]...)
	sealed := a.Seal(pkt[:ns], pkt[:ns], pkt[ns:], nil)
	cmp++
	if unsafe.SliceData(sealed) != unsafe.SliceData(buf) || cap(sealed) != cap(buf) {
		report("seal reallocated", fmt.Sprintf("len %d: result does not alias the packet buffer", n))
	}
	if len(sealed) != ns+n+ov {
		report("seal length", fmt.Sprintf("len %d: sealed length %d, want %d", n, len(sealed), ns+n+ov))
	}
	// independent reference: stdlib GCM
	blk, _ := aes.NewCipher(key)
	gcm, _ := cipher.NewGCM(blk)
	want := gcm.Seal(nil, nonce, payload, nil)
	if !bytes.Equal(sealed[ns:], want) || !bytes.Equal(sealed[:ns], nonce) {
		report("seal!=reference", fmt.Sprintf("len %d", n))
	}
	// open in place like packetInput does
	wire := append([]byte(nil), sealed...)
	ct := wire[ns:]
	pt, err := a.Open(ct[:0], wire[:ns], ct, nil)
	cmp++
	if err != nil || !bytes.Equal(pt, payload) {
		report("open roundtrip", fmt.Sprintf("len %d: err=%v", n, err))
	}
	if len(pt) > 0 && unsafe.SliceData(pt) != unsafe.SliceData(ct) {
		report("open reallocated", fmt.Sprintf("len %d", n))
	}
	// any tamper must fail
	for k := 0; k < 3; k++ {
		bad := append([]byte(nil), sealed...)
		pos := rng.intn(len(bad))
		bad[pos] ^= byte(1 << rng.intn(8))
		_, err := a.Open(nil, bad[:ns], bad[ns:], nil)
		cmp++
		if err == nil {
			report("tampered packet opened", fmt.Sprintf("len %d: flipped a bit of byte %d", n, pos))
		}
	}
	return cmp
}

func TestVerifC08(t *testing.T) {
	rec := newRec(t, "C08")
	defer rec.finish(t)
	env := rec.env
	specs := allCipherSpecs()
	const classes = 16
	keysPerLen := env.pickN(3, 12)
	var caseIdx int64
	for ci, spec := range specs {
		for c := 0; c < classes; c++ {
			idx := caseIdx
			caseIdx++
			if !env.mine(idx) {
				continue
			}
			desc := map[string]any{"part": "lengths", "case": idx, "cipher": spec.name, "len_mod_16": c, "keys_per_len": keysPerLen}
			rec.beginCase(desc)
			rec.guard(desc, func() {
				rng := rec.seed(uint64(idx), 8)
				var cmp int64
				for n := c; n <= 1500; n += classes {
					for k := 0; k < keysPerLen+2; k++ {
						key := rng.bytes(spec.keyLen)
						bc, err := spec.mk(key)
						if err != nil {
							rec.violation("C08 "+spec.name+" constructor failed", err.Error(), desc)
							return
						}
						var plain []byte
						switch {
						case k < keysPerLen:
							plain = rng.bytes(n)
						case k == keysPerLen:
							plain = make([]byte, n)
						default:
							plain = bytes.Repeat([]byte{0xff}, n)
						}
						if spec.kind == "aead" {
							cmp += aeadOne(rec, desc, spec, bc, key, plain, rng)
						} else {
							ref, err := newRefCrypt(spec, key)
							if err != nil {
								rec.violation("C08 "+spec.name+" reference constructor failed", err.Error(), desc)
								return
							}
							cmp += cryptOne(rec, desc, spec, bc, ref, plain)
						}
						rec.count("lengths_x_keys_"+spec.kind, 1)
					}
					rec.nontrivial(hashAny([]any{ci, n}))
				}
				rec.eval(cmp)
				rec.count("comparisons", cmp)
			})
			rec.sample("lengths", 3, desc)
		}
	}
	rec.note("exhaustive", true)
	rec.note("exhaustive_dimension", "cipher x length 0..1500 x {in-place, separate buffer}; keys and contents are sampled")

	// AEAD: insufficient capacity must panic rather than reallocate
	if env.mine(caseIdx) {
		desc := map[string]any{"part": "aead-capacity", "case": caseIdx}
		rec.beginCase(desc)
		for _, spec := range specs {
			if spec.kind != "aead" {
				continue
			}
			key := rec.seed(uint64(caseIdx)).bytes(spec.keyLen)
			bc, _ := spec.mk(key)
			a := bc.(*aeadCrypt)
			for _, room := range []int{0, 1, a.Overhead() - 1} {
				buf := make([]byte, a.NonceSize()+100+room)
				panicked := false
				var out []byte
				func() {
					defer func() {
						if recover() != nil {
							panicked = true
						}
					}()
					out = a.Seal(buf[:a.NonceSize()], buf[:a.NonceSize()], buf[a.NonceSize():a.NonceSize()+100], nil)
				}()
				rec.eval(1)
				if !panicked && unsafe.SliceData(out) != unsafe.SliceData(buf) {
					rec.violation("C08 "+spec.name+" seal reallocated silently", fmt.Sprintf("room %d", room), desc)
				}
				if !panicked {
					rec.count("aead_small_capacity_not_refused", 1)
				} else {
					rec.count("aead_small_capacity_refused", 1)
				}
			}
		}
	}
	caseIdx++

	// ---- concurrent callers on one shared BlockCrypt -------------------------
	for ci, spec := range specs {
		idx := caseIdx
		caseIdx++
		if !env.mine(idx) {
			continue
		}
		desc := map[string]any{"part": "concurrent", "case": idx, "cipher": spec.name, "goroutines": 16}
		rec.beginCase(desc)
		rng := rec.seed(uint64(idx), 9)
		key := rng.bytes(spec.keyLen)
		bc, err := spec.mk(key)
		if err != nil {
			continue
		}
		iters := env.pickN(150, 3000)
		var wg sync.WaitGroup
		for g := 0; g < 16; g++ {
			wg.Add(1)
			grng := rec.seed(uint64(idx), 10, uint64(g))
			go func(g int) {
				defer wg.Done()
				var cmp int64
				// the reference is private to the goroutine: third-party
				// cipher.Block values (sm4) are not safe for concurrent use
				var ref *refCrypt
				if spec.kind != "aead" {
					ref, _ = newRefCrypt(spec, key)
				}
				for i := 0; i < iters; i++ {
					n := grng.intn(1400)
					plain := grng.bytes(n)
					if spec.kind == "aead" {
						cmp += aeadOne(rec, desc, spec, bc, key, plain, grng)
					} else {
						cmp += cryptOne(rec, desc, spec, bc, ref, plain)
					}
				}
				rec.eval(cmp)
				rec.count("concurrent_comparisons", cmp)
			}(g)
		}
		wg.Wait()
		rec.nontrivial(hashAny([]any{"conc", ci}))
		rec.sample("concurrent", 1, desc)
	}
}
