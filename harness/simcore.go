//go:build verif

package kcp

// simcore: a single-goroutine discrete-event simulation of two raw KCP
// endpoints joined by a scripted network, run inside a testing/synctest bubble
// so that the protocol clock (currentMs) is exactly the simulation clock.
// Monitors run inside the output callbacks, at the admission hook (H3) and
// after every event.

import (
	"container/heap"
	"encoding/binary"
	"fmt"
	"sync/atomic"
	"time"
)

// ---------------------------------------------------------------------------
// independent KCP segment decoder (written from the README's header layout)

type wseg struct {
	conv     uint32
	cmd, frg uint8
	wnd      uint16
	ts, sn   uint32
	una      uint32
	data     []byte
}

// parseKCP decodes a datagram consisting of 24-byte little-endian headers each
// followed by exactly len bytes. It returns a non-empty error text when the
// datagram is not consumed exactly.
func parseKCP(b []byte) ([]wseg, string) {
	var out []wseg
	for len(b) > 0 {
		if len(b) < 24 {
			return out, fmt.Sprintf("%d trailing bytes, shorter than a segment header", len(b))
		}
		s := wseg{
			conv: binary.LittleEndian.Uint32(b[0:]),
			cmd:  b[4], frg: b[5],
			wnd: binary.LittleEndian.Uint16(b[6:]),
			ts:  binary.LittleEndian.Uint32(b[8:]),
			sn:  binary.LittleEndian.Uint32(b[12:]),
			una: binary.LittleEndian.Uint32(b[16:]),
		}
		n := binary.LittleEndian.Uint32(b[20:])
		b = b[24:]
		if uint64(n) > uint64(len(b)) {
			return out, fmt.Sprintf("segment sn=%d declares %d payload bytes, %d remain", s.sn, n, len(b))
		}
		s.data = b[:n]
		b = b[n:]
		out = append(out, s)
	}
	return out, ""
}

func encodeSeg(s wseg) []byte {
	b := make([]byte, 24+len(s.data))
	binary.LittleEndian.PutUint32(b[0:], s.conv)
	b[4], b[5] = s.cmd, s.frg
	binary.LittleEndian.PutUint16(b[6:], s.wnd)
	binary.LittleEndian.PutUint32(b[8:], s.ts)
	binary.LittleEndian.PutUint32(b[12:], s.sn)
	binary.LittleEndian.PutUint32(b[16:], s.una)
	binary.LittleEndian.PutUint32(b[20:], uint32(len(s.data)))
	copy(b[24:], s.data)
	return b
}

// ---------------------------------------------------------------------------
// configuration and scripts

type coreCfg struct {
	Mtu        int  `json:"mtu"`
	SndWnd     int  `json:"sndwnd"`
	RcvWnd     int  `json:"rcvwnd"`
	NoDelay    int  `json:"nodelay"`
	Interval   int  `json:"interval"`
	Resend     int  `json:"resend"`
	NC         int  `json:"nc"`
	Stream     bool `json:"stream"`
	AckNoDelay bool `json:"acknodelay"`
	WriteDelay bool `json:"writedelay"`
	Style      int  `json:"style"` // 0: session style (flush, re-arm at the returned interval); 1: public Update/Check loop
	Retune     bool `json:"retune,omitempty"` // a second NoDelay call with nodelay = -1 ("leave the mode as it is") follows the first
}

// minRTO: the minimum retransmission timeout the configuration asks for.
func (c coreCfg) minRTO() uint32 {
	if c.NoDelay != 0 {
		return IKCP_RTO_NDL
	}
	return IKCP_RTO_MIN
}

type appWrite struct {
	Gap  int `json:"gap"`  // ms after the previous write completed
	Size int `json:"size"` // bytes
}

type appScript struct {
	Writes     []appWrite `json:"writes,omitempty"`
	NWrites    int        `json:"nwrites"`
	TotalBytes int        `json:"total_bytes"`
	Raw        bool       `json:"raw"`       // hand whole buffers to Send (multi-fragment) instead of <=MSS chunks
	ReadBufs   []int      `json:"readbufs"`  // cyclic read-buffer sizes
	ReadEvery  int        `json:"readevery"` // 0: read whenever something happened at this end; >0: only every n ms
	PauseAfter int        `json:"pause_after,omitempty"`
	PauseMs    int        `json:"pause_ms,omitempty"`
	MtuRaiseAfter int     `json:"mtu_raise_after_writes,omitempty"` // after this many writes the application raises the MTU ...
	MtuRaiseTo    int     `json:"mtu_raise_to,omitempty"`           // ... to this value (queued data was cut for the old MSS)
	writesFull []appWrite
}

// fate of one datagram: delays (ms) of each copy delivered; empty = dropped.
type fateFn func(dir int, nth int, now int64, data []byte) []int

type simEvent struct {
	t    int64
	seq  int64
	kind int
	end  int
	data []byte
	fn   func()
	fec  bool // the datagram reaches the core as a packet rebuilt by FEC (late, older than what arrived meanwhile)
}

const (
	evArrive = iota
	evTick
	evApp
	evFunc
)

type simEvHeap []*simEvent

func (h simEvHeap) Len() int { return len(h) }

// Events of one virtual millisecond run in a canonical order (arrivals, then
// ticks, then application steps, then scripted functions; A before B) that does
// not depend on when they were scheduled.
func (h simEvHeap) Less(i, j int) bool {
	a, b := h[i], h[j]
	if a.t != b.t {
		return a.t < b.t
	}
	if a.kind != b.kind {
		return a.kind < b.kind
	}
	if a.kind != evArrive && a.end != b.end {
		return a.end < b.end
	}
	return a.seq < b.seq
}
func (h simEvHeap) Swap(i, j int) { h[i], h[j] = h[j], h[i] }
func (h *simEvHeap) Push(x any)   { *h = append(*h, x.(*simEvent)) }
func (h *simEvHeap) Pop() any {
	o := *h
	n := len(o)
	x := o[n-1]
	o[n-1] = nil
	*h = o[:n-1]
	return x
}

type coreEnd struct {
	peerWnd      uint32 // window carried by the last datagram that arrived on the wire itself
	peerWndKnown bool
	idx  int
	name string
	k    *KCP
	cfg  coreCfg
	app  appScript
	sim  *simCore

	// writer state
	wStream  uint64
	wOff     uint64 // bytes accepted by Send so far
	wIdx     int    // next write of the script
	wReadyAt int64  // earliest time of the next write
	wMsgs    []int  // lengths of messages accepted (message mode)
	wBlocked int64  // times the writer found the window full
	wRefused int64
	wDone    bool

	// reader state
	rStream     uint64
	rOff        uint64
	rMsgs       int
	rIdx        int // index into ReadBufs
	rPausedTill int64
	rPaused     bool
	rReads      int64
	rLastRead   int64
	rNextPoll   int64

	// monitor state
	txCount     map[uint32]int // transmissions per sn (PUSH)
	maxTx       int
	pushSegs    int64
	dgrams      int64
	lossPending bool
	lossUna     uint32
	zeroWndAdv  int64 // datagram segments advertising wnd=0
	sawRmtZero  bool
	waskSent    int64
	winsSent    int64
	admitted    int64
	tickArmed   bool
	maxRcvQ     int
	maxRcvBuf   int
	maxInflight int
	firstTxAt   int64
	lastWaitSnd int
}

type simCore struct {
	recoverEvery int
	recovered    int64
	rec    *vrec
	desc   any
	t0     time.Time
	now    int64
	ends   [2]*coreEnd
	evq    simEvHeap
	seq    int64
	fate   fateFn
	sentN  [2]int
	gsent  int
	events int64

	drops, dups, delivered int64

	// C12 trace
	traceOn bool
	trace   []byte
	snShift [2]uint32 // initial sn of each end's send space
	tsShift uint32

	// limits
	maxEvents int64
	deadline  int64 // virtual ms; 0 = none

	stop       bool
	violated   bool
	quietAfter int64 // no fate randomness after this time (heal)
	snmpBase   snmpLoss
	budgetExhausted bool // the simulation was cut short by the event budget: no verdict on completion

	onEvent func(s *simCore) // extra per-event monitor of the property under test

	noContent bool                                       // forged traffic in play: the content oracle does not apply
	mangle    func(dir int, data []byte) []byte          // in-flight alteration of a delivered copy (adversary)
	onWire    func(e *coreEnd, segs []wseg, data []byte) // extra wire monitor
}

// the KCPs of the running simulation, for the global hooks
var simKCPs = map[*KCP]*coreEnd{}

func newSimCore(rec *vrec, desc any, cfgA, cfgB coreCfg, appA, appB appScript, fate fateFn, clockOffset uint32, snA, snB uint32) *simCore {
	s := &simCore{rec: rec, desc: desc, fate: fate, maxEvents: 30_000_000}
	s.t0 = time.Now()
	// place the 32-bit millisecond clock: currentMs() == clockOffset at t0
	refTime = s.t0.Add(-time.Duration(clockOffset) * time.Millisecond)
	s.tsShift = clockOffset
	s.snShift = [2]uint32{snA, snB}
	conv := uint32(0x11223344)
	for i, cfg := range []coreCfg{cfgA, cfgB} {
		e := &coreEnd{idx: i, name: string(rune('A' + i)), cfg: cfg, sim: s, txCount: map[uint32]int{}}
		e.k = NewKCP(conv, func(buf []byte, size int) { s.onOutput(e, buf, size) })
		if cfg.Mtu != 0 {
			e.k.SetMtu(cfg.Mtu)
		}
		e.k.WndSize(cfg.SndWnd, cfg.RcvWnd)
		e.k.NoDelay(cfg.NoDelay, cfg.Interval, cfg.Resend, cfg.NC)
		if cfg.Retune {
			e.k.NoDelay(-1, cfg.Interval, cfg.Resend, cfg.NC)
		}
		if cfg.Stream {
			e.k.stream = 1
		}
		s.ends[i] = e
		simKCPs[e.k] = e
	}
	s.ends[0].app, s.ends[1].app = appA, appB
	salt := uint64(0)
	if sc, ok := desc.(*coreScenario); ok {
		salt = uint64(sc.Case) & 0xfff
	} else if sc, ok := desc.(coreScenario); ok {
		salt = uint64(sc.Case) & 0xfff
	}
	s.ends[0].wStream, s.ends[1].wStream = 0xA000+salt, 0xB000+salt
	s.ends[0].rStream, s.ends[1].rStream = s.ends[1].wStream, s.ends[0].wStream
	// sequence-number placement (C12): end i sends from snShift[i]
	for i := 0; i < 2; i++ {
		s.ends[i].k.snd_una, s.ends[i].k.snd_nxt = s.snShift[i], s.snShift[i]
		s.ends[1-i].k.rcv_nxt = s.snShift[i]
	}
	return s
}

func (s *simCore) close() {
	for _, e := range s.ends {
		delete(simKCPs, e.k)
		// give pooled buffers back (queues of a dropped KCP are GC'd otherwise)
		k := e.k
		for seg := range k.snd_queue.ForEach {
			k.recycleSegment(seg)
		}
		for seg := range k.snd_buf.ForEach {
			k.recycleSegment(seg)
		}
		for seg := range k.rcv_queue.ForEach {
			k.recycleSegment(seg)
		}
		for i := range k.rcv_buf.segments {
			k.recycleSegment(&k.rcv_buf.segments[i])
		}
	}
}

func (s *simCore) push(ev *simEvent) {
	s.seq++
	ev.seq = s.seq
	heap.Push(&s.evq, ev)
}

func (s *simCore) at(t int64, fn func()) { s.push(&simEvent{t: t, kind: evFunc, fn: fn}) }

func (s *simCore) viol(key, format string, args ...any) {
	s.violated = true
	s.rec.violation(key, fmt.Sprintf("t=%dms ", s.now)+fmt.Sprintf(format, args...), s.desc)
}

// ---------------------------------------------------------------------------
// output path: wire monitors + network

func (s *simCore) onOutput(e *coreEnd, buf []byte, size int) {
	k := e.k
	if size <= 0 || size > int(k.mtu) || size > len(buf) {
		s.viol("C10 core handed its output callback an empty or over-MTU packet", "end %s: size %d, core mtu %d", e.name, size, k.mtu)
		if size <= 0 || size > len(buf) {
			return
		}
	}
	data := append([]byte(nil), buf[:size]...)
	e.dgrams++
	segs, perr := parseKCP(data)
	if perr != "" {
		s.viol("C09 core emitted a datagram that is not a sequence of KCP segments", "end %s: %s", e.name, perr)
	}
	free := 0
	if k.rcv_queue.Len() < int(k.rcv_wnd) {
		free = int(k.rcv_wnd) - k.rcv_queue.Len()
	}
	for _, sg := range segs {
		if sg.conv != k.conv || sg.cmd < IKCP_CMD_PUSH || sg.cmd > IKCP_CMD_WINS {
			s.viol("C09 core emitted a segment with a wrong conv or cmd", "end %s: conv %#x cmd %d", e.name, sg.conv, sg.cmd)
		}
		if int(sg.wnd) > free {
			s.viol("C04 advertised window larger than the free delivery-queue space", "end %s: cmd=%d sn=%d advertises wnd=%d, delivery queue has %d of %d slots free", e.name, sg.cmd, sg.sn, sg.wnd, free, k.rcv_wnd)
		}
		if sg.wnd == 0 {
			e.zeroWndAdv++
		}
		switch sg.cmd {
		case IKCP_CMD_PUSH:
			e.pushSegs++
			e.txCount[sg.sn]++
			if c := e.txCount[sg.sn]; c > e.maxTx {
				e.maxTx = c
			}
			if e.firstTxAt == 0 {
				e.firstTxAt = s.now + 1
			}
			if len(sg.data) > int(k.mss) {
				s.viol("C10 segment payload larger than the MSS", "end %s: sn=%d len=%d mss=%d", e.name, sg.sn, len(sg.data), k.mss)
			}
		case IKCP_CMD_WASK:
			e.waskSent++
		case IKCP_CMD_WINS:
			e.winsSent++
		}
	}
	if s.traceOn {
		s.traceDatagram(e, segs)
	}
	if s.onWire != nil {
		s.onWire(e, segs, data)
	}
	dir := e.idx
	nth := s.sentN[dir]
	s.sentN[dir]++
	s.gsent++
	delays := s.fate(dir, nth, s.now, data)
	if len(delays) == 0 {
		s.drops++
		if s.recoverEvery > 0 && s.drops%int64(s.recoverEvery) == 0 && s.mangle == nil {
			// as if parity had rebuilt it: it arrives late and marked as recovered
			s.recovered++
			s.push(&simEvent{t: s.now + 15 + int64(nth%7)*9, kind: evArrive, end: 1 - dir, data: data, fec: true})
		}
		return
	}
	if len(delays) > 1 {
		s.dups += int64(len(delays) - 1)
	}
	for _, d := range delays {
		if d < 0 {
			d = 0
		}
		cp := data
		if s.mangle != nil {
			cp = s.mangle(dir, append([]byte(nil), data...))
		}
		s.push(&simEvent{t: s.now + int64(d), kind: evArrive, end: 1 - dir, data: cp})
	}
}

func (s *simCore) traceDatagram(e *coreEnd, segs []wseg) {
	// normalised: time, direction, and per segment the fields with the sequence
	// and clock offsets subtracted
	own, peer := s.snShift[e.idx], s.snShift[1-e.idx]
	var b [64]byte
	b[0] = 0xDD
	binary.LittleEndian.PutUint64(b[1:], uint64(s.now))
	b[9] = byte(e.idx)
	b[10] = byte(len(segs))
	s.trace = append(s.trace, b[:11]...)
	for _, sg := range segs {
		var sn, ts uint32
		switch sg.cmd {
		case IKCP_CMD_PUSH:
			sn, ts = sg.sn-own, sg.ts-s.tsShift
		case IKCP_CMD_ACK:
			sn, ts = sg.sn-peer, sg.ts-s.tsShift
		default:
			// WASK/WINS carry whatever the last ACK of the flush left in sn/ts
			// (or zero): not part of the protocol, not compared
		}
		b[0], b[1] = sg.cmd, sg.frg
		binary.LittleEndian.PutUint16(b[2:], sg.wnd)
		binary.LittleEndian.PutUint32(b[4:], ts)
		binary.LittleEndian.PutUint32(b[8:], sn)
		binary.LittleEndian.PutUint32(b[12:], sg.una-peer)
		binary.LittleEndian.PutUint32(b[16:], uint32(len(sg.data)))
		binary.LittleEndian.PutUint64(b[20:], hashBytes(sg.data))
		s.trace = append(s.trace, b[:28]...)
	}
}

func (s *simCore) traceNote(tag byte, e *coreEnd, v int64) {
	if !s.traceOn {
		return
	}
	var b [18]byte
	b[0] = 0xEE
	b[1] = tag
	binary.LittleEndian.PutUint64(b[2:], uint64(s.now))
	b[10] = byte(e.idx)
	binary.LittleEndian.PutUint32(b[11:], uint32(v))
	s.trace = append(s.trace, b[:15]...)
}

// ---------------------------------------------------------------------------
// hooks

// simFlushAdmitted is the H3 handler: evaluated right after the admission loop
// of flush, before the congestion state is rewritten.
func simFlushAdmitted(k *KCP, newSegs int) {
	e := simKCPs[k]
	if e == nil {
		return
	}
	if newSegs <= 0 {
		return
	}
	e.admitted += int64(newSegs)
	s := e.sim
	limit := min(k.snd_wnd, k.rmt_wnd)
	if k.nocwnd == 0 {
		limit = min(limit, k.cwnd)
	}
	out := int32(k.snd_nxt - k.snd_una)
	if out > int32(limit) {
		s.viol("C04 new segment admitted beyond min(send window, peer window, congestion window)", "end %s: %d outstanding after admitting %d, snd_wnd=%d rmt_wnd=%d cwnd=%d nc=%d", e.name, out, newSegs, k.snd_wnd, k.rmt_wnd, k.cwnd, k.nocwnd)
	}
	if e.lossPending && k.nocwnd == 0 && k.snd_una == e.lossUna {
		s.viol("C04 new segment admitted after a timeout loss before the oldest outstanding segment was acknowledged", "end %s: admitted %d new segment(s), snd_una=%d unchanged since the timeout, cwnd=%d", e.name, newSegs, k.snd_una-s.snShift[e.idx], k.cwnd)
	}
}

var simHooksOnce atomic.Bool

func installSimHooks() {
	if simHooksOnce.Swap(true) {
		return
	}
	f := simFlushAdmitted
	verifFlushAdmittedHook.Store(&f)
}

// ---------------------------------------------------------------------------
// event processing

func (s *simCore) input(e *coreEnd, data []byte) int { return s.inputTyped(e, data, false) }

func (s *simCore) inputTyped(e *coreEnd, data []byte, fec bool) int {
	// the core sees a private copy, as the read loop's buffer would be
	buf := append([]byte(nil), data...)
	typ := IKCP_PACKET_REGULAR
	if fec {
		typ = IKCP_PACKET_FEC
	}
	r := e.k.Input(buf, typ, e.cfg.AckNoDelay)
	// the peer's window as the core must see it: the one carried by the last
	// datagram that arrived on the wire itself. A packet rebuilt by FEC is older
	// than the ones that made its recovery possible; its window is history.
	if !fec && r == 0 {
		if segs, perr := parseKCP(data); perr == "" && len(segs) > 0 {
			e.peerWnd, e.peerWndKnown = uint32(segs[len(segs)-1].wnd), true
		}
	}
	if e.peerWndKnown && e.k.rmt_wnd != e.peerWnd {
		what := "a datagram from the wire"
		if fec {
			what = "a packet rebuilt by FEC"
		}
		s.viol("C04 sender's view of the peer's window is not the window the peer advertised last", "end %s after %s: rmt_wnd=%d, last window seen on the wire %d", e.name, what, e.k.rmt_wnd, e.peerWnd)
		e.peerWndKnown = false
	}
	s.noteFlush(e)
	return r
}

func (s *simCore) armTick(e *coreEnd, at int64) {
	s.push(&simEvent{t: at, kind: evTick, end: e.idx})
}

func (s *simCore) start() {
	s.snmpBase = s.snmpLoss()
	for _, e := range s.ends {
		s.armTick(e, 0)
		s.push(&simEvent{t: 0, kind: evApp, end: e.idx})
		if e.app.ReadEvery > 0 {
			e.rNextPoll = int64(e.app.ReadEvery)
			s.push(&simEvent{t: e.rNextPoll, kind: evApp, end: e.idx})
		}
	}
}

func (s *simCore) tick(e *coreEnd) {
	k := e.k
	if e.cfg.Style == 0 {
		iv := k.flush(IKCP_FLUSH_FULL)
		s.noteFlush(e)
		if iv == 0 {
			iv = 1
		}
		s.armTick(e, s.now+int64(iv))
		return
	}
	k.Update()
	s.noteFlush(e)
	next := k.Check()
	d := int64(_itimediff(next, currentMs()))
	if d < 1 {
		d = 1
	}
	if d > int64(k.interval) {
		d = int64(k.interval)
	}
	s.armTick(e, s.now+d)
}

// step runs the simulation until done() or a limit is reached. It returns
// false when it stopped on a limit.
func (s *simCore) run(done func() bool) bool {
	for !s.stop {
		if done() {
			return true
		}
		if s.evq.Len() == 0 {
			return false
		}
		ev := heap.Pop(&s.evq).(*simEvent)
		if s.deadline > 0 && ev.t > s.deadline {
			heap.Push(&s.evq, ev)
			return false
		}
		if ev.t > s.now {
			time.Sleep(time.Duration(ev.t-s.now) * time.Millisecond)
			s.now = ev.t
		}
		s.events++
		if s.events&1023 == 0 {
			verifHeartbeat.Add(1)
		}
		if s.events > s.maxEvents {
			s.rec.inconcl(fmt.Sprintf("event budget exhausted at t=%d ms (case hash %x)", s.now, hashAny(s.desc)))
			s.budgetExhausted = true
			return false
		}
		var e *coreEnd
		snmp0 := s.snmpLoss()
		switch ev.kind {
		case evArrive:
			e = s.ends[ev.end]
			s.delivered++
			r := s.inputTyped(e, ev.data, ev.fec)
			s.traceNote('i', e, int64(r))
			s.appStep(e, e.app.ReadEvery == 0)
		case evTick:
			e = s.ends[ev.end]
			s.tick(e)
			s.appStep(e, e.app.ReadEvery == 0)
		case evApp:
			e = s.ends[ev.end]
			poll := e.app.ReadEvery > 0 && s.now >= e.rNextPoll
			s.appStep(e, e.app.ReadEvery == 0 || poll)
			if poll {
				e.rNextPoll = s.now + int64(e.app.ReadEvery)
				s.push(&simEvent{t: e.rNextPoll, kind: evApp, end: e.idx})
			}
		case evFunc:
			ev.fn()
		}
		if e != nil {
			s.afterEvent(e, snmp0)
		} else {
			for _, x := range s.ends {
				s.afterEvent(x, snmp0)
			}
		}
		if s.onEvent != nil {
			s.onEvent(s)
		}
	}
	return false
}

type snmpLoss struct{ lost, fast, early uint64 }

func (s *simCore) snmpLoss() snmpLoss {
	return snmpLoss{atomic.LoadUint64(&DefaultSnmp.LostSegs), atomic.LoadUint64(&DefaultSnmp.FastRetransSegs), atomic.LoadUint64(&DefaultSnmp.EarlyRetransSegs)}
}

// afterEvent: the always-on invariants (C04 occupancy, C18 RTO bound) and the
// bookkeeping for the timeout-loss rule.
// noteFlush does the bookkeeping of the timeout-loss rule. It must run after
// every flush of end e (an event can contain several: Input flushes, then the
// writer flushes), because a fast/early retransmission in one flush legitimately
// re-opens the window for the next one. The SNMP counters are global, the
// simulation is single-threaded: what moved since the last call belongs to e.
func (s *simCore) noteFlush(e *coreEnd) {
	k := e.k
	now := s.snmpLoss()
	before := s.snmpBase
	s.snmpBase = now
	if e.lossPending && k.snd_una != e.lossUna {
		e.lossPending = false
	}
	if e.lossPending && (now.fast != before.fast || now.early != before.early) && now.lost == before.lost {
		// a later fast/early retransmission is a new congestion event that
		// re-opens the window by design
		e.lossPending = false
	}
	if now.lost != before.lost && k.nocwnd == 0 {
		e.lossPending = true
		e.lossUna = k.snd_una
	}
}

func (s *simCore) afterEvent(e *coreEnd, before snmpLoss) {
	k := e.k
	s.noteFlush(e)
	if n := k.rcv_queue.Len(); n > int(k.rcv_wnd) {
		s.viol("C04 delivery queue holds more than one receive window", "end %s: %d segments queued, rcv_wnd=%d", e.name, n, k.rcv_wnd)
	} else if n > e.maxRcvQ {
		e.maxRcvQ = n
	}
	if n := k.rcv_buf.Len(); n > int(k.rcv_wnd) {
		s.viol("C04 out-of-order buffer holds more than one receive window", "end %s: %d segments buffered, rcv_wnd=%d", e.name, n, k.rcv_wnd)
	} else if n > e.maxRcvBuf {
		e.maxRcvBuf = n
	}
	out := int32(k.snd_nxt - k.snd_una)
	if out > int32(k.snd_wnd) || out < 0 {
		s.viol("C04 more than a send window of segments outstanding", "end %s: snd_nxt-snd_una=%d snd_wnd=%d", e.name, out, k.snd_wnd)
	} else if int(out) > e.maxInflight {
		e.maxInflight = int(out)
	}
	if (e.cfg.RcvWnd > 0 && k.rcv_wnd != uint32(e.cfg.RcvWnd)) || (e.cfg.SndWnd > 0 && k.snd_wnd != uint32(e.cfg.SndWnd)) {
		s.viol("C04 window in force is not the configured one", "end %s: snd_wnd=%d rcv_wnd=%d, configured %d/%d", e.name, k.snd_wnd, k.rcv_wnd, e.cfg.SndWnd, e.cfg.RcvWnd)
	}
	if k.rx_rto < k.rx_minrto || k.rx_rto < e.cfg.minRTO() || k.rx_rto > IKCP_RTO_MAX {
		s.viol("C18 retransmission timeout outside [minimum, 60s]", "end %s: rx_rto=%d, minimum configured %d (nodelay=%d), core's own minimum %d", e.name, k.rx_rto, e.cfg.minRTO(), e.cfg.NoDelay, k.rx_minrto)
	}
	if k.rmt_wnd == 0 {
		e.sawRmtZero = true
	}
	// recorded on change only: the trace must not depend on how often the
	// application polls (Check may legitimately ask for more or fewer calls)
	if w := k.WaitSnd(); w != e.lastWaitSnd {
		e.lastWaitSnd = w
		s.traceNote('w', e, int64(w))
	}
}

// ---------------------------------------------------------------------------
// application model

func (e *coreEnd) nextWrite() (appWrite, bool) {
	if e.wIdx >= len(e.app.writesFull) {
		return appWrite{}, false
	}
	return e.app.writesFull[e.wIdx], true
}

// appStep lets the writer and the reader of end e make progress.
func (s *simCore) appStep(e *coreEnd, canRead bool) {
	k := e.k
	// ---- writer (mimics UDPSession.WriteBuffers) ----
	for {
		w, ok := e.nextWrite()
		if !ok {
			e.wDone = true
			break
		}
		if s.now < e.wReadyAt {
			break
		}
		if k.WaitSnd() >= int(k.snd_wnd) {
			e.wBlocked++
			break
		}
		if e.app.MtuRaiseAfter > 0 && e.wIdx == e.app.MtuRaiseAfter {
			e.app.MtuRaiseAfter = 0
			if k.SetMtu(e.app.MtuRaiseTo) != 0 {
				s.viol("C10 core: SetMtu refused a larger MTU", "end %s: SetMtu(%d) with mtu %d", e.name, e.app.MtuRaiseTo, k.mtu)
			}
		}
		buf := make([]byte, w.Size)
		fillContent(e.wStream, e.wOff, buf)
		accepted := true
		if e.app.Raw {
			r := k.Send(buf)
			s.traceNote('s', e, int64(r))
			if r < 0 {
				accepted = false
				e.wRefused++
			}
		} else {
			b := buf
			for {
				if len(b) <= int(k.mss) {
					k.Send(b)
					break
				}
				k.Send(b[:k.mss])
				b = b[k.mss:]
			}
		}
		if accepted {
			if !e.cfg.Stream {
				if e.app.Raw {
					e.wMsgs = append(e.wMsgs, w.Size)
				} else {
					for rem := w.Size; rem > 0; rem -= int(k.mss) {
						e.wMsgs = append(e.wMsgs, min(rem, int(k.mss)))
					}
				}
			}
			e.wOff += uint64(w.Size)
		}
		e.wIdx++
		if nw, ok := e.nextWrite(); ok {
			e.wReadyAt = s.now + int64(nw.Gap)
			if nw.Gap > 0 {
				s.push(&simEvent{t: e.wReadyAt, kind: evApp, end: e.idx})
			}
		}
		if e.cfg.Style == 0 && (k.WaitSnd() >= int(k.snd_wnd) || !e.cfg.WriteDelay) {
			k.flush(IKCP_FLUSH_FULL)
			s.noteFlush(e)
		}
	}
	// ---- reader ----
	if e.rPaused {
		if s.now < e.rPausedTill {
			return
		}
		e.rPaused = false
	}
	if !canRead {
		return
	}
	for {
		if e.app.PauseAfter > 0 && !e.rPaused && e.rPausedTill == 0 && e.rOff >= uint64(e.app.PauseAfter) {
			e.rPaused = true
			e.rPausedTill = s.now + int64(e.app.PauseMs)
			s.push(&simEvent{t: e.rPausedTill, kind: evApp, end: e.idx})
			return
		}
		if !s.readOnce(e) {
			break
		}
	}
}

// readOnce performs one Recv with the next scripted buffer size and checks the
// result against the content oracle. Returns false when nothing was readable.
func (s *simCore) readOnce(e *coreEnd) bool {
	k := e.k
	peer := s.ends[1-e.idx]
	size := 65536
	if len(e.app.ReadBufs) > 0 {
		size = e.app.ReadBufs[e.rIdx%len(e.app.ReadBufs)]
	}
	peek := k.PeekSize()
	buf := make([]byte, size)
	qlen := k.rcv_queue.Len()
	n := k.Recv(buf)
	if n == -2 {
		// buffer too small: nothing may be consumed; retry like the session does
		if k.rcv_queue.Len() != qlen || k.PeekSize() != peek {
			s.viol("C01 Recv refused a short buffer but consumed data", "end %s: queue %d -> %d", e.name, qlen, k.rcv_queue.Len())
		}
		if peek < 0 {
			s.viol("C01 Recv returned -2 with nothing readable", "end %s", e.name)
			return false
		}
		buf = make([]byte, peek)
		n = k.Recv(buf)
	}
	if n < 0 {
		if peek >= 0 && n == -1 {
			s.viol("C01 Recv found nothing although PeekSize announced a message", "end %s: peek=%d", e.name, peek)
		}
		return false
	}
	e.rIdx++
	e.rReads++
	e.rLastRead = s.now
	s.traceNote('r', e, int64(n))
	got := buf[:n]
	if s.noContent {
		e.rOff += uint64(n)
		return true
	}
	if e.rOff+uint64(n) > peer.wOff {
		s.viol("C01 reader received bytes the peer's writer never had accepted", "end %s: read offset %d + %d bytes > %d accepted", e.name, e.rOff, n, peer.wOff)
	}
	if i := checkContent(e.rStream, e.rOff, got); i >= 0 {
		s.viol("C01 reader received bytes that are not the next bytes written", "end %s: %d bytes at stream offset %d differ from what was written at byte %d (lost, duplicated, reordered or altered data)", e.name, n, e.rOff, i)
	}
	if !peer.cfg.Stream {
		if e.rMsgs >= len(peer.wMsgs) {
			s.viol("C01 reader received a message that was never sent", "end %s: message #%d of %d bytes", e.name, e.rMsgs, n)
		} else if peer.wMsgs[e.rMsgs] != n {
			s.viol("C01 message boundary not preserved", "end %s: message #%d returned %d bytes, sent %d", e.name, e.rMsgs, n, peer.wMsgs[e.rMsgs])
		}
		e.rMsgs++
	}
	e.rOff += uint64(n)
	return true
}

// complete: every writer is done, everything written was read, no backlog.
func (s *simCore) complete() bool {
	for _, e := range s.ends {
		if !e.wDone || e.k.WaitSnd() != 0 {
			return false
		}
		if e.rOff != s.ends[1-e.idx].wOff {
			return false
		}
	}
	return true
}

func (s *simCore) progressSummary() string {
	out := ""
	for _, e := range s.ends {
		k := e.k
		out += fmt.Sprintf("[%s wrote=%d/%d writes read=%d/%d waitsnd=%d snd_una=+%d snd_nxt=+%d rcv_nxt=+%d rcvq=%d rcvbuf=%d rmt_wnd=%d cwnd=%d acklist=%d probe_wait=%d rto=%d] ",
			e.name, e.wIdx, len(e.app.writesFull), e.rOff, s.ends[1-e.idx].wOff, k.WaitSnd(), k.snd_una-s.snShift[e.idx], k.snd_nxt-s.snShift[e.idx], k.rcv_nxt-s.snShift[1-e.idx], k.rcv_queue.Len(), k.rcv_buf.Len(), k.rmt_wnd, k.cwnd, len(k.acklist), k.probe_wait, k.rx_rto)
	}
	return out
}

// ---------------------------------------------------------------------------
// generators

func (a *appScript) expand(rng *vrng, mss int, kind string) {
	if len(a.Writes) > 0 {
		a.writesFull = a.Writes
		a.NWrites = len(a.Writes)
		a.TotalBytes = 0
		for _, w := range a.Writes {
			a.TotalBytes += w.Size
		}
		return
	}
	total := a.TotalBytes
	var ws []appWrite
	for total > 0 {
		var sz int
		switch kind {
		case "tiny":
			sz = rng.between(1, 8)
		case "mss-edge":
			sz = pick(rng, []int{mss - 1, mss, mss + 1, 2 * mss, 2*mss + 1, 1})
		case "large":
			sz = rng.between(mss, 40*mss)
		default: // mixed
			switch rng.intn(6) {
			case 0:
				sz = rng.between(1, 16)
			case 1:
				sz = pick(rng, []int{mss - 1, mss, mss + 1})
			case 2:
				sz = rng.between(mss, 8*mss)
			default:
				sz = rng.between(1, 3*mss)
			}
		}
		if sz < 1 {
			sz = 1
		}
		if sz > total {
			sz = total
		}
		gap := 0
		if rng.chance(0.2) {
			gap = rng.between(1, 300)
		}
		ws = append(ws, appWrite{gap, sz})
		total -= sz
	}
	a.writesFull = ws
	a.NWrites = len(ws)
}

// netProfile is a seeded random network.
type netProfile struct {
	Name      string   `json:"name"`
	Loss      float64  `json:"loss"`
	Dup       float64  `json:"dup"`
	DelayMin  int      `json:"delay_min"`
	DelayMax  int      `json:"delay_max"`
	AckLoss   float64  `json:"ack_path_loss,omitempty"` // extra loss on direction 1
	Outages   [][2]int `json:"outages,omitempty"`       // [from,to) ms: everything dropped
	HealAt    int      `json:"heal_at"`                 // after this: no loss/dup, delay <= DelayMin..DelayMin+HealJit
	HealJit   int      `json:"heal_jitter"`
	Recover   int      `json:"recovered_every,omitempty"` // every n-th dropped datagram still arrives, late and as a packet rebuilt by FEC
	LossyFrom int      `json:"lossy_from,omitempty"` // before this time: no loss, no duplication, constant delay DelayMin (FIFO)
}

func (p netProfile) fate(rng *vrng) fateFn {
	return func(dir, nth int, now int64, data []byte) []int {
		if p.HealAt > 0 && now >= int64(p.HealAt) {
			return []int{p.DelayMin + rng.intn(p.HealJit+1)}
		}
		if now < int64(p.LossyFrom) {
			return []int{p.DelayMin}
		}
		for _, o := range p.Outages {
			if now >= int64(o[0]) && now < int64(o[1]) {
				return nil
			}
		}
		loss := p.Loss
		if dir == 1 {
			loss += p.AckLoss
		}
		if rng.chance(loss) {
			return nil
		}
		n := 1
		for rng.chance(p.Dup) && n < 4 {
			n++
		}
		out := make([]int, n)
		for i := range out {
			out[i] = p.DelayMin + rng.intn(p.DelayMax-p.DelayMin+1)
		}
		return out
	}
}

func randomProfile(rng *vrng, healAt int) netProfile {
	kinds := []string{"clean", "light-loss", "heavy-loss", "dup", "reorder", "outage", "ack-path", "mixed"}
	k := pick(rng, kinds)
	p := netProfile{Name: k, DelayMin: rng.between(0, 40), HealAt: healAt, HealJit: rng.between(0, 10)}
	p.DelayMax = p.DelayMin + rng.between(0, 20)
	switch k {
	case "light-loss":
		p.Loss = 0.01 + rng.float()*0.09
	case "heavy-loss":
		p.Loss = 0.2 + rng.float()*0.4
	case "dup":
		p.Dup = 0.05 + rng.float()*0.3
		p.Loss = rng.float() * 0.05
	case "reorder":
		p.DelayMax = p.DelayMin + rng.between(50, 2000)
		p.Loss = rng.float() * 0.05
	case "outage":
		t := rng.between(0, 2000)
		for i := 0; i < rng.between(1, 3); i++ {
			l := pick(rng, []int{100, 500, 3000, 30000, 120000, 600000, 1800000})
			p.Outages = append(p.Outages, [2]int{t, t + l})
			t += l + rng.between(100, 5000)
		}
		p.Loss = rng.float() * 0.1
	case "ack-path":
		p.AckLoss = 0.3 + rng.float()*0.5
	case "mixed":
		p.Loss = rng.float() * 0.3
		p.Dup = rng.float() * 0.2
		p.DelayMax = p.DelayMin + rng.between(0, 500)
	}
	return p
}

func randomCoreCfg(rng *vrng) coreCfg {
	c := coreCfg{
		Mtu:        pick(rng, []int{0, 0, 50, 100, 256, 576, 1200, 1400, 1500}),
		SndWnd:     pick(rng, []int{1, 2, 3, 8, 32, 128, 1024}),
		RcvWnd:     pick(rng, []int{1, 2, 3, 8, 32, 128, 1024}),
		NoDelay:    rng.intn(2),
		Interval:   pick(rng, []int{10, 20, 40, 100}),
		Resend:     pick(rng, []int{0, 1, 2, 3}),
		NC:         rng.intn(2),
		Stream:     rng.chance(0.5),
		AckNoDelay: rng.chance(0.3),
		WriteDelay: rng.chance(0.3),
		Style:      rng.intn(2),
	}
	c.Retune = rng.chance(0.3)
	return c
}

func (c coreCfg) mss() int {
	m := c.Mtu
	if m == 0 {
		m = IKCP_MTU_DEF
	}
	return m - IKCP_OVERHEAD
}

// dumpTrace renders a normalised trace as text (for violation witnesses).
func dumpTrace(tr []byte) []string {
	var out []string
	for len(tr) > 0 {
		switch tr[0] {
		case 0xDD:
			if len(tr) < 11 {
				return append(out, "truncated")
			}
			t := binary.LittleEndian.Uint64(tr[1:])
			end, n := tr[9], int(tr[10])
			tr = tr[11:]
			line := fmt.Sprintf("t=%d %c sends:", t, 'A'+end)
			for i := 0; i < n && len(tr) >= 28; i++ {
				line += fmt.Sprintf(" [cmd=%d frg=%d wnd=%d ts=%d sn=%d una=%d len=%d h=%x]", tr[0], tr[1], binary.LittleEndian.Uint16(tr[2:]), binary.LittleEndian.Uint32(tr[4:]), binary.LittleEndian.Uint32(tr[8:]), binary.LittleEndian.Uint32(tr[12:]), binary.LittleEndian.Uint32(tr[16:]), binary.LittleEndian.Uint64(tr[20:])&0xffff)
				tr = tr[28:]
			}
			out = append(out, line)
		case 0xEE:
			if len(tr) < 15 {
				return append(out, "truncated")
			}
			out = append(out, fmt.Sprintf("t=%d %c %c=%d", binary.LittleEndian.Uint64(tr[2:]), 'A'+tr[10], tr[1], int32(binary.LittleEndian.Uint32(tr[11:]))))
			tr = tr[15:]
		default:
			return append(out, "unparsable")
		}
	}
	return out
}
