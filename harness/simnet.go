//go:build verif

package kcp

// simnet: an in-memory datagram network of net.PacketConn endpoints for use
// inside a synctest bubble. Every datagram is logged to a tap, given a fate by
// a scripted function and delivered by one dispatcher goroutine in
// (virtual time, sequence) order, so constant-delay paths are FIFO.

import (
	"golang.org/x/net/ipv4"
	"container/heap"
	"errors"
	"net"
	"sync"
	"sync/atomic"
	"time"
)

// strAddr is a net.Addr that is not a *net.UDPAddr (the string-compared branch
// of the read loop's source filter).
type strAddr string

func (a strAddr) Network() string { return "sim" }
func (a strAddr) String() string  { return string(a) }

func simUDPAddr(host byte, port int) *net.UDPAddr {
	return &net.UDPAddr{IP: net.IPv4(10, 0, 0, host), Port: port}
}

type simPkt struct {
	data []byte
	from net.Addr
}

type netFate func(from, to string, nth int, nowMs int64, data []byte) []int

type hubDelivery struct {
	at  time.Time
	seq int64
	to  *simConn
	pkt simPkt
}

type hubHeap []*hubDelivery

func (h hubHeap) Len() int { return len(h) }
func (h hubHeap) Less(i, j int) bool {
	if !h[i].at.Equal(h[j].at) {
		return h[i].at.Before(h[j].at)
	}
	return h[i].seq < h[j].seq
}
func (h hubHeap) Swap(i, j int) { h[i], h[j] = h[j], h[i] }
func (h *hubHeap) Push(x any)   { *h = append(*h, x.(*hubDelivery)) }
func (h *hubHeap) Pop() any {
	o := *h
	n := len(o)
	x := o[n-1]
	o[n-1] = nil
	*h = o[:n-1]
	return x
}

type simHub struct {
	mu      sync.Mutex
	fateMu  sync.Mutex
	t0      time.Time
	eps     map[string]*simConn
	fate    netFate
	tap     func(from, to net.Addr, data []byte, nowMs int64) // called for every datagram handed to WriteTo
	onDrop  func(from, to net.Addr, data []byte)
	pending hubHeap
	seq     int64
	sent    map[string]int // per "from>to" counter
	wake    chan struct{}
	done    chan struct{}
	frozen  atomic.Bool // drop everything silently (network cut)
	stopped bool

	nSent, nDropped, nDup, nDelivered, nNoRoute atomic.Int64
	batch bool // endpoints created from now on offer batch IO (see simConn.batch)
}

func newSimHub(fate netFate) *simHub {
	h := &simHub{t0: time.Now(), eps: map[string]*simConn{}, fate: fate, sent: map[string]int{},
		wake: make(chan struct{}, 1), done: make(chan struct{})}
	go h.dispatch()
	return h
}

func (h *simHub) nowMs() int64 { return int64(time.Since(h.t0) / time.Millisecond) }

func (h *simHub) dispatch() {
	timer := time.NewTimer(time.Hour)
	defer timer.Stop()
	for {
		h.mu.Lock()
		now := time.Now()
		for h.pending.Len() > 0 && !h.pending[0].at.After(now) {
			d := heap.Pop(&h.pending).(*hubDelivery)
			h.mu.Unlock()
			d.to.enqueue(d.pkt)
			h.nDelivered.Add(1)
			verifHeartbeat.Add(1)
			h.mu.Lock()
		}
		var wait time.Duration = time.Hour
		if h.pending.Len() > 0 {
			wait = h.pending[0].at.Sub(now)
		}
		h.mu.Unlock()
		timer.Reset(wait)
		select {
		case <-timer.C:
		case <-h.wake:
		case <-h.done:
			return
		}
	}
}

func (h *simHub) stop() {
	h.mu.Lock()
	if !h.stopped {
		h.stopped = true
		close(h.done)
	}
	h.mu.Unlock()
}

func (h *simHub) listen(addr net.Addr) *simConn {
	c := &simConn{hub: h, addr: addr, rq: make(chan simPkt, 1<<16), closed: make(chan struct{}), failRead: make(chan struct{})}
	if h.batch {
		c.batch = true
		c.batchRng = newRng(hashBytes([]byte(addr.String())), 0xba7c4)
	}
	h.mu.Lock()
	h.eps[addr.String()] = c
	h.mu.Unlock()
	return c
}

// inject delivers a datagram to the endpoint at 'to' as if sent by 'from',
// bypassing fate and tap (raw injection by the adversary).
func (h *simHub) inject(from net.Addr, to string, data []byte) bool {
	h.mu.Lock()
	c := h.eps[to]
	h.mu.Unlock()
	if c == nil {
		return false
	}
	c.enqueue(simPkt{append([]byte(nil), data...), from})
	return true
}

func (h *simHub) send(c *simConn, data []byte, to net.Addr) {
	h.nSent.Add(1)
	cp := append([]byte(nil), data...)
	now := h.nowMs()
	if h.tap != nil {
		h.tap(c.addr, to, cp, now)
	}
	if h.frozen.Load() {
		h.nDropped.Add(1)
		if h.onDrop != nil {
			h.onDrop(c.addr, to, cp)
		}
		return
	}
	h.mu.Lock()
	dst := h.eps[to.String()]
	key := c.addr.String() + ">" + to.String()
	nth := h.sent[key]
	h.sent[key]++
	h.mu.Unlock()
	if dst == nil {
		h.nNoRoute.Add(1)
		return
	}
	delays := []int{0}
	h.fateMu.Lock()
	if h.fate != nil {
		delays = h.fate(c.addr.String(), to.String(), nth, now, cp)
	}
	h.fateMu.Unlock()
	if len(delays) == 0 {
		h.nDropped.Add(1)
		if h.onDrop != nil {
			h.onDrop(c.addr, to, cp)
		}
		return
	}
	if len(delays) > 1 {
		h.nDup.Add(int64(len(delays) - 1))
	}
	base := time.Now()
	h.mu.Lock()
	for _, d := range delays {
		if d < 0 {
			d = 0
		}
		h.seq++
		heap.Push(&h.pending, &hubDelivery{at: base.Add(time.Duration(d) * time.Millisecond), seq: h.seq, to: dst, pkt: simPkt{cp, c.addr}})
	}
	h.mu.Unlock()
	select {
	case h.wake <- struct{}{}:
	default:
	}
}

type simConn struct {
	hub       *simHub
	addr      net.Addr
	rq        chan simPkt
	closed    chan struct{}
	closeOnce sync.Once
	failRead  chan struct{}
	failOnce  sync.Once
	readErr   atomic.Value // error
	writeErr  atomic.Value // error
	overflow  atomic.Int64
	written   atomic.Int64
	// batch: sessions and listeners on this endpoint use the library's
	// recvmmsg/sendmmsg code paths (hook H5 hands them a simBatch)
	batch      bool
	batchMu    sync.Mutex
	batchRng   *vrng
	batchPlan  func(n int) (accept int, err error) // nil: random prefixes, never an error
	nBatchW, nBatchPartial, nBatchR, nBatchRMulti atomic.Int64
}

// simBatch is the batch-IO face of a simConn: ReadBatch blocks for the first
// datagram and then takes what else is queued (as recvmmsg does), WriteBatch
// accepts a prefix of the messages (as sendmmsg may).
type simBatch struct{ c *simConn }

func (b *simBatch) ReadBatch(ms []ipv4.Message, flags int) (int, error) {
	c := b.c
	n := 0
	for n < len(ms) {
		if n == 0 {
			k, from, err := c.ReadFrom(ms[0].Buffers[0])
			if err != nil {
				return 0, err
			}
			ms[0].N, ms[0].Addr = k, from
			n = 1
			continue
		}
		select {
		case pkt := <-c.rq:
			ms[n].N = copy(ms[n].Buffers[0], pkt.data)
			from := pkt.from
			if u, ok := from.(*net.UDPAddr); ok {
				if ip4 := u.IP.To4(); ip4 != nil {
					from = &net.UDPAddr{IP: ip4, Port: u.Port, Zone: u.Zone}
				}
			}
			ms[n].Addr = from
			n++
			continue
		default:
		}
		break
	}
	c.nBatchR.Add(1)
	if n > 1 {
		c.nBatchRMulti.Add(1)
	}
	return n, nil
}

func (b *simBatch) WriteBatch(ms []ipv4.Message, flags int) (int, error) {
	c := b.c
	if len(ms) == 0 {
		return 0, nil
	}
	c.batchMu.Lock()
	accept := len(ms)
	var perr error
	if c.batchPlan != nil {
		accept, perr = c.batchPlan(len(ms))
	} else if len(ms) > 1 && c.batchRng != nil && c.batchRng.chance(0.3) {
		accept = c.batchRng.between(1, len(ms)-1)
	}
	c.batchMu.Unlock()
	if perr != nil {
		return 0, perr
	}
	accept = max(1, min(accept, len(ms)))
	for i := 0; i < accept; i++ {
		if _, err := c.WriteTo(ms[i].Buffers[0], ms[i].Addr); err != nil {
			if i == 0 {
				return 0, err
			}
			accept = i
			break
		}
		ms[i].N = len(ms[i].Buffers[0])
	}
	c.nBatchW.Add(1)
	if accept < len(ms) {
		c.nBatchPartial.Add(1)
	}
	return accept, nil
}

// h5BatchConn is hook H5.
func h5BatchConn(conn net.PacketConn) (batchConn, bool) {
	if c, ok := conn.(*simConn); ok && c.batch {
		return &simBatch{c}, true
	}
	return nil, false
}

var errSimInjected = errors.New("simnet: injected socket error")

func (c *simConn) enqueue(p simPkt) {
	select {
	case <-c.closed:
		return
	default:
	}
	select {
	case c.rq <- p:
	default:
		c.overflow.Add(1)
	}
}

func (c *simConn) ReadFrom(p []byte) (int, net.Addr, error) {
	select {
	case <-c.closed:
		return 0, nil, net.ErrClosed
	case <-c.failRead:
		return 0, nil, c.readErr.Load().(error)
	default:
	}
	select {
	case pkt := <-c.rq:
		n := copy(p, pkt.data)
		from := pkt.from
		if u, ok := from.(*net.UDPAddr); ok {
			// as a socket read does: a fresh address, IPv4 in its 4-byte form (the
			// addresses sessions are dialled with are usually in the 16-byte form)
			if ip4 := u.IP.To4(); ip4 != nil {
				from = &net.UDPAddr{IP: ip4, Port: u.Port, Zone: u.Zone}
			}
		}
		return n, from, nil
	case <-c.closed:
		return 0, nil, net.ErrClosed
	case <-c.failRead:
		return 0, nil, c.readErr.Load().(error)
	}
}

func (c *simConn) WriteTo(p []byte, addr net.Addr) (int, error) {
	select {
	case <-c.closed:
		return 0, net.ErrClosed
	default:
	}
	if e := c.writeErr.Load(); e != nil {
		return 0, e.(error)
	}
	c.written.Add(1)
	c.hub.send(c, p, addr)
	return len(p), nil
}

func (c *simConn) Close() error {
	err := net.ErrClosed
	c.closeOnce.Do(func() {
		close(c.closed)
		c.hub.mu.Lock()
		if c.hub.eps[c.addr.String()] == c {
			delete(c.hub.eps, c.addr.String())
		}
		c.hub.mu.Unlock()
		err = nil
	})
	return err
}

func (c *simConn) isClosed() bool {
	select {
	case <-c.closed:
		return true
	default:
		return false
	}
}

// failReads makes every current and future ReadFrom return err.
func (c *simConn) failReads(err error) {
	c.failOnce.Do(func() {
		c.readErr.Store(err)
		close(c.failRead)
	})
}

// failWrites makes every future WriteTo return err.
func (c *simConn) failWrites(err error) { c.writeErr.Store(err) }

func (c *simConn) LocalAddr() net.Addr                { return c.addr }
func (c *simConn) SetDeadline(t time.Time) error      { return nil }
func (c *simConn) SetReadDeadline(t time.Time) error  { return nil }
func (c *simConn) SetWriteDeadline(t time.Time) error { return nil }

func (h *simHub) setFate(f netFate) {
	h.fateMu.Lock()
	h.fate = f
	h.fateMu.Unlock()
}
