//go:build verif

package kcp

// C09 — datagrams follow the documented frame layout; nonces never repeat.
// The monitor is wiredec (always on in every session scenario); this check
// drives a matrix in which every packet class occurs: first transmissions,
// retransmissions, pure ACK datagrams, WASK/WINS, FEC data and parity,
// out-of-band packets; encoders started just before the FEC id wrap.

import (
	"sync"
	"io"
	"syscall"
	"sync/atomic"
	"testing"
	"testing/synctest"
	"time"
)

func TestVerifC09(t *testing.T) {
	rec := newRec(t, "C09")
	defer rec.finish(t)
	env := rec.env
	var caseIdx int64
	n := env.pickN(192, 2400)
	for q := 0; q < n; q++ {
		idx := caseIdx
		caseIdx++
		if !env.mine(idx) {
			continue
		}
		rng := rec.seed(uint64(idx), 9)
		sc := genSessScenario(rng, idx, "wire-matrix")
		sc.Link.Cipher = cipherNames[q%len(cipherNames)]
		variant := (q / len(cipherNames)) % 4
		fec := (q/len(cipherNames)/4)%3 != 0
		if variant == 3 {
			fec = true
		}
		if fec {
			if sc.Link.D == 0 {
				sc.Link.D, sc.Link.P = pick(rng, []int{1, 2, 3, 10}), pick(rng, []int{1, 2, 3})
			}
		} else {
			sc.Link.D, sc.Link.P = 0, 0
		}
		for _, c := range []*sessCfg{&sc.CfgC, &sc.CfgS} {
			if c.Mtu != 0 && c.Mtu < sc.Link.overhead()+IKCP_OVERHEAD+30 {
				c.Mtu = 0
			}
		}
		nearWrap := fec && rng.chance(0.3)
		switch variant {
		case 0: // clean-ish bulk
			sc.Net = netProfile{Name: "clean", DelayMin: 5, DelayMax: 8, HealAt: 1}
		case 1: // zero window: WASK / WINS
			sc.CfgS.RcvWnd = pick(rng, []int{1, 2, 4})
			sc.CfgC.SndWnd = 32
			sc.PauseAt = rng.between(1, 2000)
			sc.PauseMs = pick(rng, []int{3000, 20000})
			sc.Net = netProfile{Name: "clean", DelayMin: 5, DelayMax: 8, HealAt: 1}
			sc.BytesCS = max(sc.BytesCS, 40*1000)
		case 2: // lossy: retransmissions
			sc.Net.Name = "lossy"
			sc.Net.Loss = 0.1 + rng.float()*0.2
		case 3: // out-of-band packets interleaved
		}
		sc.Part = []string{"bulk", "zero-window", "lossy", "oob"}[variant]
		rec.beginCase(sc)
		synctest.Test(t, func(t *testing.T) {
			var oobSent atomic.Int64
			stop := make(chan struct{})
			hooks := &sessHooks{
				pre: func(w *sessWorld, client *UDPSession) {
					if nearWrap && client.fecEncoder != nil {
						enc := client.fecEncoder
						enc.next = enc.paws - uint32(enc.shardSize*rng.between(1, 4))
					}
				},
				post: func(w *sessWorld, client, server *UDPSession) {
					if variant != 3 {
						return
					}
					for _, s := range []*UDPSession{client, server} {
						s.SetOOBHandler(func([]byte) {})
						r := newRng(rng.u64())
						go func(s *UDPSession) {
							for {
								select {
								case <-stop:
									return
								case <-time.After(time.Duration(r.between(1, 80)) * time.Millisecond):
								}
								max := s.GetOOBMaxSize()
								sz := pick(r, []int{0, 1, r.intn(max + 1), max})
								if s.SendOOB(r.bytes(sz)) == nil {
									oobSent.Add(1)
								}
							}
						}(s)
					}
				},
				end: func(w *sessWorld, client, server *UDPSession) { close(stop) },
			}
			res := runSessScenario(t, rec, &sc, rng, hooks)
			res.tally(rec)
			rec.eval(1)
			rec.count("oob_sent", oobSent.Load())
			if nearWrap {
				rec.count("scenarios_with_encoder_started_before_the_id_wrap", 1)
			}
			if !res.completed {
				d := ""
				for _, x := range res.xs {
					d += x.progress() + " "
				}
				rec.violation("C02 transfer did not complete within the virtual-time limit", d, sc)
			}
			rec.nontrivial(hashAny(sc))
		})
		rec.sample(sc.Part, 1, sessBrief(&sc))
	}
	// ---- a socket error in the middle of a transmit batch -----------------------
	// The batch transmit path (hook H5 puts it on the in-memory transport) is told
	// by the "kernel" that only a prefix of a batch went out, and the next call
	// fails once with ENOBUFS. Whatever the session does next, what it has put on
	// the wire so far must stay what the README describes: no datagram twice, no
	// FEC id twice, every nonce fresh (the wire decoder's always-on rules).
	for q := 0; q < env.pickN(48, 480); q++ {
		idx := caseIdx
		caseIdx++
		if !env.mine(idx) {
			continue
		}
		rng := rec.seed(uint64(idx), 91)
		sc := genSessScenario(rng, idx, "batch-write-error")
		sc.Link.Batch = true
		sc.TxFaults = true
		sc.Link.Cipher = cipherNames[q%len(cipherNames)]
		if sc.Link.D == 0 || q%2 == 0 {
			sc.Link.D, sc.Link.P = pick(rng, []int{2, 3, 10}), pick(rng, []int{1, 2, 3})
		}
		sc.CfgC.Mtu, sc.CfgS.Mtu = 0, 0
		sc.CfgC.SndWnd, sc.CfgS.RcvWnd = max(sc.CfgC.SndWnd, 32), max(sc.CfgS.RcvWnd, 32)
		sc.CfgC.RateLimit = 0
		sc.Net = netProfile{Name: "clean", DelayMin: 5, DelayMax: 8, HealAt: 1}
		sc.BytesCS = max(sc.BytesCS, 60*1000)
		sc.LimitMs = 20000
		rec.beginCase(sc)
		synctest.Test(t, func(t *testing.T) {
			var fired atomic.Int64
			hooks := &sessHooks{
				pre: func(w *sessWorld, client *UDPSession) {
					c, ok := client.conn.(*simConn)
					if !ok || !c.batch {
						return
					}
					at := rng.between(2, 12)
					multi, armed, done := 0, false, false
					prng := newRng(rng.u64())
					c.batchMu.Lock()
					c.batchPlan = func(n int) (int, error) {
						switch {
						case done:
							return n, nil
						case armed:
							armed, done = false, true
							fired.Add(1)
							return 0, syscall.ENOBUFS
						case n >= 2:
							multi++
							if multi == at {
								armed = true
								return prng.between(1, n-1), nil
							}
						}
						return n, nil
					}
					c.batchMu.Unlock()
				},
			}
			res := runSessScenario(t, rec, &sc, rng, hooks)
			res.tally(rec)
			rec.eval(1)
			rec.count("transmit_batches_cut_short_then_failed", fired.Load())
			if fired.Load() > 0 {
				rec.nontrivial(hashAny(sc))
			}
		})
		rec.sample("batch-write-error", 1, sessBrief(&sc))
	}

	// ---- several sessions of one listener share its cipher object -----------------
	// (the multi-peer world of C11/C19: every datagram of every accepted session is
	// decoded; their post-processing goroutines encrypt at the same time)
	for q := 0; q < env.pickN(32, 320); q++ {
		idx := caseIdx
		caseIdx++
		if !env.mine(idx) {
			continue
		}
		rng := rec.seed(uint64(idx), 92)
		sc := c11Scenario{Case: idx, Part: "oob"}
		sc.Link.Cipher = cipherNames[q%len(cipherNames)]
		sc.Link.D, sc.Link.P = pick(rng, []int{2, 3, 10}), pick(rng, []int{1, 2})
		sc.Link.UDPAddr = rng.chance(0.5)
		sc.Link.Batch = rng.chance(0.4)
		sc.Clients = pick(rng, []int{3, 4, 6, 8})
		sc.NoReconnect = true // a replaced session may still flush queued packets after its successor was registered under the same address pair
		sc.Net = netProfile{Name: "clean", DelayMin: 3, DelayMax: 9, HealAt: 1}
		sc.Bytes = rng.between(10000, 30000)
		rec.beginCase(sc)
		synctest.Test(t, func(t *testing.T) { runC19(t, rec, &sc, rng, q) })
		rec.eval(1)
		rec.count("scenarios_with_sessions_sharing_the_listeners_cipher", 1)
		rec.nontrivial(hashAny(sc))
	}

	// ---- the nonce source under concurrent callers --------------------------------
	// Every session of the process draws its nonces from one generator; the
	// sessions of a listener also share the key. Eight goroutines draw at the
	// same time: no value may come out twice, within or across callers.
	for q := 0; q < env.pickN(6, 48); q++ {
		idx := caseIdx
		caseIdx++
		if !env.mine(idx) {
			continue
		}
		kind := []string{"global", "aes", "chacha8"}[q%3]
		desc := map[string]any{"case": idx, "part": "nonce-generator", "generator": kind, "callers": 8}
		rec.beginCase(desc)
		var g io.Reader
		switch kind {
		case "aes":
			g = NewEntropyAES()
		case "chacha8":
			g = NewEntropyChacha8()
		}
		per := env.pickN(40000, 200000)
		out := make([][][16]byte, 8)
		var wg sync.WaitGroup
		for i := range out {
			out[i] = make([][16]byte, per)
			wg.Add(1)
			go func(dst [][16]byte) {
				defer wg.Done()
				for k := range dst {
					if g == nil {
						fillRand(dst[k][:])
					} else {
						io.ReadFull(g, dst[k][:])
					}
				}
			}(out[i])
		}
		wg.Wait()
		seen := make(map[[16]byte]struct{}, 8*per)
		repeats := 0
		for i := range out {
			for _, v := range out[i] {
				if _, dup := seen[v]; dup {
					repeats++
				}
				seen[v] = struct{}{}
			}
		}
		rec.eval(1)
		rec.count("nonce_values_drawn_by_concurrent_callers", int64(8*per))
		if repeats > 0 {
			rec.violationf(desc, "C09 nonce repeated", "the %s generator handed out %d of %d 16-byte values more than once to 8 concurrent callers", kind, repeats, 8*per)
		}
		rec.nontrivial(hashAny(desc))
	}

	// a packet class the monitor never saw makes the run inconclusive
	for _, cls := range []string{"wire_push_segments", "wire_push_retransmissions", "wire_ack_segments", "wire_wask_segments", "wire_wins_segments", "wire_fec_data_packets", "wire_fec_parity_packets", "wire_oob_packets", "wire_fec_groups_parity_verified"} {
		if rec.getCount(cls) == 0 && rec.env.nshards == 1 {
			rec.inconcl("packet class never observed: " + cls)
		}
	}
}
