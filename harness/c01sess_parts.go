//go:build verif

package kcp

import (
	"sync"
	"fmt"
	"sync/atomic"
	"time"
	"testing"
	"testing/synctest"
)

// c04SessionPart: window-edge session scenarios (small windows, lagging
// reader); the monitors are the always-on ones (H3 admission, output-callback
// window truthfulness, occupancy ticks, Write admission bound).
func c04SessionPart(t *testing.T, rec *vrec, caseIdx *int64) {
	env := rec.env
	for q := 0; q < env.pickN(64, 1600); q++ {
		idx := *caseIdx
		*caseIdx++
		if !env.mine(idx) {
			continue
		}
		rng := rec.seed(uint64(idx), 401)
		sc := genSessScenario(rng, idx, "session-window-edge")
		w := []int{1, 2, 3, 4, 8, 16}
		sc.CfgC.SndWnd, sc.CfgC.RcvWnd = pick(rng, w), pick(rng, w)
		sc.CfgS.SndWnd, sc.CfgS.RcvWnd = pick(rng, w), pick(rng, w)
		if rng.chance(0.5) {
			sc.PauseAt, sc.PauseMs = rng.between(1, 5000), pick(rng, []int{500, 3000})
		}
		sc.BytesCS = min(sc.BytesCS, 60000)
		sc.BytesSC = min(sc.BytesSC, 60000)
		rec.beginCase(sc)
		synctest.Test(t, func(t *testing.T) {
			res := runSessScenario(t, rec, &sc, rng, nil)
			res.tally(rec)
			rec.eval(1)
			if !res.completed {
				rec.violation("C02 transfer did not complete within the virtual-time limit", "", sc)
			}
			rec.nontrivial(hashAny(sc))
		})
		rec.sample("session-window-edge", 1, sessBrief(&sc))
	}
}

// c03SessionPart: stalled server-side reader; during the pause and for a while
// after it every client-bound datagram carrying WASK/WINS (and FEC parity,
// which could rebuild them) is dropped.
func c03SessionPart(t *testing.T, rec *vrec, caseIdx *int64) {
	env := rec.env
	for q := 0; q < env.pickN(48, 1200); q++ {
		idx := *caseIdx
		*caseIdx++
		if !env.mine(idx) {
			continue
		}
		rng := rec.seed(uint64(idx), 301)
		sc := genSessScenario(rng, idx, "session-stalled-reader")
		sc.Link.Cipher = cipherNames[q%len(cipherNames)]
		for _, c := range []*sessCfg{&sc.CfgC, &sc.CfgS} {
			if c.Mtu != 0 && c.Mtu < sc.Link.overhead()+IKCP_OVERHEAD+30 {
				c.Mtu = 0
			}
		}
		rw := pick(rng, []int{1, 2, 4, 8, 32})
		sc.CfgS.RcvWnd = rw
		sc.CfgC.SndWnd = pick(rng, []int{rw, 32, 128})
		mss := sc.CfgC.mtu() - sc.Link.overhead() - IKCP_OVERHEAD
		sc.BytesCS = (rw + sc.CfgC.SndWnd + 20) * mss
		sc.BytesSC = 0
		sc.WSizes = []int{mss, mss / 2, 2 * mss}
		sc.PauseAt = rng.between(1, (rw+1)*mss)
		sc.PauseMs = pick(rng, []int{2000, 20000, 300000})
		lossLen := pick(rng, []int{0, 2000, 60000})
		d := rng.between(2, 30)
		sc.Net = netProfile{Name: "probe-loss", DelayMin: d, DelayMax: d + rng.between(0, 5), HealAt: 1 << 30}
		sc.LimitMs = int64(sc.PauseMs+lossLen) + 3600*1000
		rec.beginCase(sc)
		synctest.Test(t, func(t *testing.T) {
			var dropped atomic.Int64
			hooks := &sessHooks{pre: func(w *sessWorld, client *UDPSession) {
				sl := newSealer(cipherByName(sc.Link.Cipher), w.key)
				fec := sc.Link.D > 0
				laddr := w.laddr.String()
				lossEnd := int64(sc.PauseMs + lossLen + 5000) // generous: the pause starts within the first seconds
				w.hub.setFate(func(from, to string, nth int, now int64, data []byte) []int {
					if from == laddr && now < lossEnd {
						pt := sl.open(data)
						ctl := false
						if pt != nil && fec && len(pt) >= 8 {
							switch uint16(pt[4]) | uint16(pt[5])<<8 {
							case 0xf1:
								pt = pt[8:]
							case 0xf2:
								ctl = true // parity could rebuild a dropped probe answer
								pt = nil
							default:
								pt = nil
							}
						}
						if pt != nil {
							segs, _ := parseKCP(pt)
							for _, sg := range segs {
								if sg.cmd == IKCP_CMD_WINS || sg.cmd == IKCP_CMD_WASK {
									ctl = true
								}
							}
						}
						if ctl {
							dropped.Add(1)
							return nil
						}
					}
					return []int{sc.Net.DelayMin}
				})
			}}
			res := runSessScenario(t, rec, &sc, rng, hooks)
			res.tally(rec)
			rec.eval(1)
			rec.count("session_window_control_datagrams_dropped", dropped.Load())
			if !res.completed {
				d := ""
				for _, x := range res.xs {
					d += x.progress() + " "
				}
				if res.client != nil {
					d += "client: " + sessProgress(res.client)
				}
				rec.violation("C03 transfer did not resume and complete after the reader resumed and the losses ended", d, sc)
			}
			var zero int64
			for _, m := range res.w.mons {
				zero += m.zeroAdv.Load()
			}
			if zero > 0 {
				rec.count("session_scenarios_reaching_zero_window", 1)
				rec.nontrivial(hashAny(sc))
			}
		})
		rec.sample("session-stalled-reader", 1, sessBrief(&sc))
	}
}

// c18SessionPart: clean constant-delay path between two sessions satisfying the
// property's precondition; nothing may be retransmitted, GetRTO stays in bounds.
func c18SessionPart(t *testing.T, rec *vrec, caseIdx *int64) {
	env := rec.env
	for q := 0; q < env.pickN(64, 1600); q++ {
		idx := *caseIdx
		*caseIdx++
		if !env.mine(idx) {
			continue
		}
		rng := rec.seed(uint64(idx), 1801)
		sc := genSessScenario(rng, idx, "session-clean-path")
		sc.Link.Cipher = cipherNames[q%len(cipherNames)]
		// a rate limit below the offered load is a queueing delay: not a clean path
		for _, c := range []*sessCfg{&sc.CfgC, &sc.CfgS} {
			if c.RateLimit > 0 {
				c.RateLimit = -1
			}
		}
		for _, c := range []*sessCfg{&sc.CfgC, &sc.CfgS} {
			if c.Mtu != 0 && c.Mtu < sc.Link.overhead()+IKCP_OVERHEAD+30 {
				c.Mtu = 0
			}
		}
		for {
			sc.CfgC.NoDelay, sc.CfgS.NoDelay = rng.intn(2), rng.intn(2)
			sc.CfgC.Interval, sc.CfgS.Interval = pick(rng, []int{10, 20, 40}), pick(rng, []int{10, 20, 40})
			minC, minS := 100, 100
			if sc.CfgC.NoDelay == 1 {
				minC = 30
			}
			if sc.CfgS.NoDelay == 1 {
				minS = 30
			}
			room := min(minC-sc.CfgS.Interval, minS-sc.CfgC.Interval) - 2
			if room < 0 {
				continue
			}
			d := rng.between(0, room/2)
			sc.Net = netProfile{Name: "clean-constant-delay", DelayMin: d, DelayMax: d, HealAt: 1}
			break
		}
		// An accepted session runs its first update tick with the default
		// interval (100 ms) before it can be configured, so its first
		// acknowledgement may take 100 ms - outside the precondition. Warm-up:
		// both writers send their first chunk (initial RTO 200 ms), then pause;
		// the measurement starts 300 ms later, when the configured intervals
		// are in force.
		sc.WPauseAt, sc.WPauseMs = 1, 400
		for _, pr := range [][2]*sessCfg{{&sc.CfgC, &sc.CfgS}, {&sc.CfgS, &sc.CfgC}} {
			need := min(pr[0].SndWnd, 32)
			if pr[1].RcvWnd < need {
				pr[1].RcvWnd = need
			}
		}
		sc.RSizes = []int{65536}
		sc.PauseAt = 0
		sc.LimitMs = 3600 * 1000
		rec.beginCase(sc)
		synctest.Test(t, func(t *testing.T) {
			var s0 *Snmp
			// other goroutines use the sessions' getters all the time, in bursts at
			// every virtual millisecond — also the ones at which update ticks fire.
			// That costs no virtual time and must not cost a tick.
			stopPoll := make(chan struct{})
			var stopOnce sync.Once
			defer stopOnce.Do(func() { close(stopPoll) })
			res := runSessScenario(t, rec, &sc, rng, &sessHooks{post: func(w *sessWorld, client, server *UDPSession) {
				for g := 0; g < 3; g++ {
					go func() {
						for {
							for i := 0; i < 60; i++ {
								client.GetRTO()
								server.GetSRTT()
								server.GetRTO()
								client.GetSRTTVar()
							}
							select {
							case <-stopPoll:
								return
							case <-time.After(time.Millisecond):
							}
						}
					}()
				}
				time.Sleep(300 * time.Millisecond)
				s0 = DefaultSnmp.Copy()
			}, end: func(w *sessWorld, client, server *UDPSession) { stopOnce.Do(func() { close(stopPoll) }) }})
			if s0 == nil {
				return
			}
			res.tally(rec)
			rec.eval(1)
			d := snmpDiff(s0, DefaultSnmp.Copy())
			if d["RetransSegs"] != 0 {
				rec.violationf(sc, "C18 retransmission counters moved on a clean path", "sessions: RetransSegs +%d (Lost %d, Fast %d, Early %d); one-way delay %d ms, intervals %d/%d, nodelay %d/%d", d["RetransSegs"], d["LostSegs"], d["FastRetransSegs"], d["EarlyRetransSegs"], sc.Net.DelayMin, sc.CfgC.Interval, sc.CfgS.Interval, sc.CfgC.NoDelay, sc.CfgS.NoDelay)
				for _, m := range res.w.mons {
					if m.firstRetrans != "" {
						rec.note("first retransmission, case "+fmt.Sprint(sc.Case), m.firstRetrans)
					}
				}
			}
			if !res.completed {
				rec.violation("C02 transfer did not complete within the virtual-time limit", "", sc)
			}
			rec.count("session_clean_path_scenarios", 1)
			rec.nontrivial(hashAny(sc))
		})
		rec.sample("session-clean-path", 1, sessBrief(&sc))
	}
}
