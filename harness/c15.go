//go:build verif

package kcp

// C15 — Close releases goroutines and callbacks; pooled buffers have one owner.
// Leak monitor: sessions, listener and transports are closed at a scripted
// point of a traffic history in a scripted order (with in-flight traffic in
// between); 10 virtual minutes later no goroutine of the bubble may still run
// library code and no scheduled callback may be pending. Pool sanitizer (H2):
// quarantine + poison + ownership map, on in every scenario.

import (
	"sync"
	"fmt"
	"testing"
	"testing/synctest"
	"time"
)

var closePoints = []string{"idle", "mid-transfer", "peer-stalled-queues-full", "lossy-fec-recovery", "callers-blocked", "after-completion"}

func TestVerifC15(t *testing.T) {
	rec := newRec(t, "C15")
	defer rec.finish(t)
	env := rec.env
	var caseIdx int64
	units := []string{"client", "server", "listener", "transports"}

	// ---- part 1: Close scripts ------------------------------------------------
	for q := 0; q < env.pickN(240, 6000); q++ {
		idx := caseIdx
		caseIdx++
		if !env.mine(idx) {
			continue
		}
		rng := rec.seed(uint64(idx), 15)
		sc := genSessScenario(rng, idx, "close-script")
		point := closePoints[q%len(closePoints)]
		// the deprecated SetDUP knob is still there: every data datagram is
		// transmitted 1+n times, each copy in a pool buffer of its own. Dialled
		// side only, before any traffic: the transmit goroutine reads the field
		// without the session lock, so calling it on a session that is already
		// sending (every accepted one) is a data race by construction
		// (deprecated API, outside C14's statement; observed, see DESIGN.md)
		sc.CfgC.Dup = pick(rng, []int{0, 0, 1, 2, 3})
		order := make([]string, 4)
		for i, p := range rng.perm(4) {
			order[i] = units[p]
		}
		gaps := []int{rng.between(0, 60), rng.between(0, 60), rng.between(0, 60)}
		if rng.chance(0.3) {
			gaps = []int{0, 0, 0}
		}
		sc.Net.HealAt = 1 << 30
		switch point {
		case "idle":
			sc.BytesCS, sc.BytesSC = 1, 0
		case "peer-stalled-queues-full":
			sc.PauseAt, sc.PauseMs = 1, 3600*1000
			sc.CfgS.RcvWnd = pick(rng, []int{1, 4, 32})
			sc.BytesCS = max(sc.BytesCS, 200000)
		case "lossy-fec-recovery":
			if sc.Link.D == 0 {
				sc.Link.D, sc.Link.P = pick(rng, []int{2, 3, 10}), pick(rng, []int{1, 2, 3})
			}
			sc.Net.Name, sc.Net.Loss = "lossy", 0.1+rng.float()*0.2
			sc.BytesCS = max(sc.BytesCS, 100000)
		case "callers-blocked":
			sc.BytesSC = 0 // the client's reader blocks for ever; the server's writer has nothing
			sc.BytesCS = max(sc.BytesCS, 50000)
		}
		for _, c := range []*sessCfg{&sc.CfgC, &sc.CfgS} {
			if c.Mtu != 0 && c.Mtu < sc.Link.overhead()+IKCP_OVERHEAD+30 {
				c.Mtu = 0
			}
		}
		desc := map[string]any{"case": idx, "close_point": point, "order": order, "gaps_ms": gaps, "scenario": sessBrief(&sc)}
		rec.beginCase(desc)
		synctest.Test(t, func(t *testing.T) {
			runCloseScript(t, rec, &sc, rng, point, order, gaps, desc)
		})
		rec.eval(1)
		rec.nontrivial(hashAny(desc))
		rec.sample(point, 1, desc)
	}

	// ---- part 1b: more new peers than the accept backlog holds, then shutdown ----
	for q := 0; q < env.pickN(8, 160); q++ {
		idx := caseIdx
		caseIdx++
		if !env.mine(idx) {
			continue
		}
		rng := rec.seed(uint64(idx), 152)
		sc := c11Scenario{Case: idx, Part: "backlog", Clients: 128 + rng.between(3, 20), Bytes: 300,
			Net: netProfile{Name: "clean", DelayMin: 2, DelayMax: 6, HealAt: 1}}
		sc.Link.Cipher = pick(rng, cipherNames)
		if rng.chance(0.5) {
			sc.Link.D, sc.Link.P = 2, 1
		}
		rec.beginCase(sc)
		synctest.Test(t, func(t *testing.T) { runC11(t, rec, &sc, rng) })
		rec.eval(1)
		rec.count("backlog_overflow_shutdown_scenarios", 1)
		rec.nontrivial(hashAny(sc))
	}

	// ---- part 1c: shutdown with sessions still waiting in the accept backlog ------
	for q := 0; q < env.pickN(24, 300); q++ {
		idx := caseIdx
		caseIdx++
		if !env.mine(idx) {
			continue
		}
		rng := rec.seed(uint64(idx), 153)
		sc := c11Scenario{Case: idx, Part: "backlog-close", Clients: pick(rng, []int{1, 2, 3, 4, 5, 7, 16, 40}), Bytes: 300,
			Net: netProfile{Name: "clean", DelayMin: 2, DelayMax: 6, HealAt: 1}}
		sc.Link.Cipher = pick(rng, cipherNames)
		if rng.chance(0.5) {
			sc.Link.D, sc.Link.P = 2, 1
		}
		rec.beginCase(sc)
		synctest.Test(t, func(t *testing.T) { runC11(t, rec, &sc, rng) })
		rec.eval(1)
		rec.count("backlog_waiting_shutdown_scenarios", 1)
		rec.nontrivial(hashAny(sc))
	}

	// ---- part 2: pool sanitizer over the FEC code paths that recycle most -------
	sanEnabled.Store(true)
	installHooks()
	setCurrent(rec, "pool sanitizer over FEC decoder scripts")
	for q := 0; q < env.pickN(400, 10000); q++ {
		idx := caseIdx
		caseIdx++
		if !env.mine(idx) {
			continue
		}
		rng := rec.seed(uint64(idx), 151)
		desc := map[string]any{"case": idx, "part": "pool-fec-decoder"}
		rec.beginCase(desc)
		setCurrent(rec, desc)
		rec.guard(desc, func() {
			ds, ps := rng.between(1, 10), rng.between(1, 4)
			dr, pr := ds, ps
			if q%2 == 1 {
				dr, pr = rng.between(1, 10), rng.between(1, 4) // mismatch: the retune path recycles whole shard sets
				if rng.chance(0.4) {
					// same total, different split
					tot := ds + ps
					if tot >= 2 {
						dr = rng.between(1, tot-1)
						pr = tot - dr
					}
				}
			}
			desc["sender"], desc["receiver"] = [2]int{ds, ps}, [2]int{dr, pr}
			enc := newFECEncoder(ds, ps, 0)
			dec := newFECDecoder(dr, pr)
			enc.next = uint32(ds+ps) * uint32(rng.between(0, 1<<20))
			resetDecoder(dec, enc.next)
			fed := 0
			for g := 0; g < rng.between(50, 400); g++ {
				grp, msg := makeGroup(enc, sizeVector("kcp-like", ds, rng, 300), rng, fecNoSkip)
				if msg != "" {
					return
				}
				for _, i := range rng.perm(len(grp.pkts)) {
					x := rng.intn(10)
					c := 1
					if x < 2 {
						c = 0
					} else if x == 9 {
						c = 2
					}
					for ; c > 0; c-- {
						in := append([]byte(nil), grp.pkts[i]...)
						for _, r := range dec.decode(fecPacket(in)) {
							// the session reads the recovered packet, then recycles it
							_ = hashBytes(r)
							defaultBufferPool.Put(r)
						}
						fed++
					}
				}
			}
			resetDecoder(dec, 0)
			rec.count("pool_fec_decoder_packets_fed", int64(fed))
			rec.eval(1)
			rec.nontrivial(hashAny(desc))
		})
		if q%50 == 49 {
			sanReset()
		}
	}
	sanReset()
	sanTally(rec)
}

func runCloseScript(t *testing.T, rec *vrec, sc *sessScenario, rng *vrng, point string, order []string, gaps []int, desc any) {
	netRng := newRng(rng.u64())
	pf := sc.Net.fate(netRng)
	laddrS := ""
	w := newSessWorld(t, rec, desc, sc.Link, uint64(sc.Case), func(from, to string, nth int, now int64, data []byte) []int {
		dir := 0
		if from == laddrS {
			dir = 1
		}
		return pf(dir, nth, now, data)
	})
	refTime = time.Now()
	yieldMode.Store(1)
	defer yieldMode.Store(0)
	l := w.listen()
	laddrS = w.laddr.String()
	client, cconn := w.dial(2, uint32(0x2000+sc.Case&0xffff))
	applySessCfg(client, sc.CfgC)
	streamCS, streamSC := uint64(0xC000)+uint64(sc.Case&0xfff), uint64(0xD000)+uint64(sc.Case&0xfff)
	w.watch(client, "client", cconn.addr, w.laddr, sc.CfgC, streamCS)
	client.mu.Lock()
	mssC := int(client.kcp.mss)
	client.mu.Unlock()
	x1 := &xfer{w: w, name: "client->server", from: client, stream: streamCS, total: sc.BytesCS, wsizes: sc.WSizes, rsizes: sc.RSizes, vec: sc.Vec, mss: mssC,
		pauseAt: sc.PauseAt, pauseFor: time.Duration(sc.PauseMs) * time.Millisecond}
	x1.doneW, x1.doneR, x1.abort = make(chan struct{}), make(chan struct{}), make(chan struct{})
	go x1.writer()
	l.SetReadDeadline(time.Now().Add(10 * time.Minute))
	server, err := l.AcceptKCP()
	if err != nil {
		// lossy start: nothing to script; close what exists
		client.Close()
		<-x1.doneW
		close(x1.doneR)
		w.shutdown(nil, true)
		rec.count("close_scripts_without_connection", 1)
		return
	}
	applySessCfg(server, sc.CfgS)
	w.watch(server, "server", w.laddr, cconn.addr, sc.CfgS, streamSC)
	x1.to = server
	go x1.reader()
	x2 := &xfer{w: w, name: "server->client", from: server, to: client, stream: streamSC, total: sc.BytesSC, wsizes: sc.WSizes, rsizes: sc.RSizes, vec: sc.Vec, mss: mssC}
	if point == "callers-blocked" {
		x2.total = 1 << 30 // reader waits for data that never comes
		x2.doneW, x2.doneR, x2.abort = make(chan struct{}), make(chan struct{}), make(chan struct{})
		close(x2.doneW)
		go x2.reader()
	} else {
		x2.start()
	}
	// reach the close point
	switch point {
	case "idle":
		waitAll(time.Minute, x1)
		time.Sleep(time.Duration(rng.between(1, 5000)) * time.Millisecond)
	case "after-completion":
		if !waitAll(4*time.Hour, x1, x2) {
			rec.count("close_scripts_transfer_incomplete_before_close", 1)
		}
	case "peer-stalled-queues-full":
		time.Sleep(time.Duration(rng.between(2000, 20000)) * time.Millisecond)
	default:
		time.Sleep(time.Duration(rng.between(1, 3000)) * time.Millisecond)
	}
	pendingBefore := schedPending.Load()
	// sessions the listener may create from now on are new conversations: the
	// per-conversation wire monitors end here
	w.mu.Lock()
	for _, f := range w.flows {
		f.tally(w.rec)
	}
	w.flows = map[string]*wireFlow{}
	w.mu.Unlock()
	// out-of-band senders (a heartbeat, say) do not know about Close: they go on
	// calling SendOOB through the script and after it
	oobStop := make(chan struct{})
	var oobWg sync.WaitGroup
	if sc.Link.D > 0 {
		for _, s := range []*UDPSession{client, server} {
			oobWg.Add(1)
			go func(s *UDPSession) {
				defer oobWg.Done()
				for i := 0; ; i++ {
					s.SendOOB([]byte("still there?"))
					select {
					case <-oobStop:
						return
					case <-time.After(time.Duration(1+i%7) * time.Millisecond):
					}
				}
			}(s)
		}
	}
	// the Close script
	for i, u := range order {
		switch u {
		case "client":
			client.Close()
		case "server":
			server.Close()
		case "listener":
			l.Close()
		case "transports":
			for _, c := range []*simConn{w.lconn, cconn} {
				c.Close()
			}
		}
		if i < len(gaps) && gaps[i] > 0 {
			time.Sleep(time.Duration(gaps[i]) * time.Millisecond)
		}
	}
	if sc.Link.D > 0 {
		time.Sleep(30 * time.Millisecond)
		for i := 0; i < 10; i++ {
			client.SendOOB([]byte("late"))
			server.SendOOB([]byte("late"))
		}
		rec.count("SendOOB_calls_on_closed_sessions", 20)
	}
	close(oobStop)
	oobWg.Wait()
	close(x1.abort)
	rec.count("close_scripts_run", 1)
	rec.count("close_point_"+point, 1)
	// every caller must come back (C13): give them a virtual minute
	done := make(chan struct{})
	go func() {
		<-x1.doneW
		<-x1.doneR
		<-x2.doneW
		<-x2.doneR
		close(done)
	}()
	select {
	case <-done:
	case <-time.After(time.Minute):
		rec.violation("C13 caller still blocked a virtual minute after session, listener and transport were closed", fmt.Sprintf("%s %s", x1.progress(), x2.progress()), desc)
	}
	_ = pendingBefore
	// everything the application holds is closed; nothing else is touched before
	// the leak check ("-" is a no-op step)
	w.shutdown([]string{"-"}, true)
}
