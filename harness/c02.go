//go:build verif

package kcp

// C02 — eventual delivery, restated as bounded progress in virtual time: after
// a finite fault phase the network becomes fair; everything written must be
// read and both backlogs must be zero within T, a bound built from the
// protocol's own timers (see DESIGN.md).

import (
	"fmt"
	"testing"
	"testing/synctest"
)

// c02Bound is T: virtual ms allowed after the heal.
func c02Bound(sc *coreScenario, healAt int64, segs int) int64 {
	d := int64(sc.Net.DelayMin + sc.Net.HealJit)
	iv := int64(max(sc.CfgA.Interval, sc.CfgB.Interval))
	return 3*healAt + 4*60000 + 4*120000 + 50*int64(segs)*(2*d+iv)
}

var fateNames = []string{"deliver", "drop", "duplicate", "late"}

func TestVerifC02Core(t *testing.T) {
	rec := newRec(t, "C02")
	defer rec.finish(t)
	env := rec.env
	var caseIdx int64
	K := env.pickN(6, 7)
	inBubble(t, func() {
		// ---- exhaustive fates of the first K datagrams --------------------------
		// 16 base configurations x 4^K fate vectors; the vector space is split
		// into blocks of 256 so that shards share the work.
		nvec := 1
		for i := 0; i < K; i++ {
			nvec *= 4
		}
		const block = 256
		for cfgi := 0; cfgi < 16; cfgi++ {
			for b0 := 0; b0 < nvec; b0 += block {
				idx := caseIdx
				caseIdx++
				if !env.mine(idx) {
					continue
				}
				nodelay, nc, style, stream := cfgi&1, (cfgi>>1)&1, (cfgi>>2)&1, (cfgi>>3)&1 == 1
				desc := map[string]any{"part": "first-K-fates", "case": idx, "K": K, "nodelay": nodelay, "nc": nc, "style": style, "stream": stream, "vectors": [2]int{b0, b0 + block}}
				rec.beginCase(desc)
				rec.guard(desc, func() {
					for v := b0; v < b0+block && v < nvec; v++ {
						fates := make([]int, K)
						x := v
						for i := range fates {
							fates[i] = x & 3
							x >>= 2
						}
						rng := rec.seed(uint64(cfgi), 2)
						cfg := coreCfg{SndWnd: 8, RcvWnd: 8, NoDelay: nodelay, Interval: 20, Resend: 2 * nodelay, NC: nc, Stream: stream, Style: style, Mtu: 200}
						sc := coreScenario{Case: idx, Part: "first-K-fates", CfgA: cfg, CfgB: cfg,
							AppA: appScript{TotalBytes: 12 * cfg.mss(), ReadBufs: []int{65536}},
							AppB: appScript{TotalBytes: 2 * cfg.mss(), ReadBufs: []int{65536}},
							Net:  netProfile{Name: "scripted", DelayMin: 15, HealJit: 0}, Writes: "mss-edge"}
						healAt := int64(-1)
						sc.LimitMs = 1 << 40
						var s *simCore
						res := runCoreScenario(rec, &sc, rng, func(sim *simCore) {
							s = sim
							sim.fate = func(dir, nth int, now int64, data []byte) []int {
								g := sim.gsent - 1 // emission index over both directions
								if g >= K {
									if healAt < 0 {
										healAt = now
										sim.deadline = healAt + c02Bound(&sc, healAt, 14)
									}
									return []int{15}
								}
								switch fates[g] {
								case 1:
									return nil
								case 2:
									return []int{15, 15 + 7}
								case 3:
									// later than the next two retransmission timeouts
									rto := int(sim.ends[dir].k.rx_rto)
									return []int{15 + 3*rto + 50}
								}
								return []int{15}
							}
						})
						_ = s
						rec.eval(1)
						rec.count("fate_vectors_run", 1)
						res.tally(rec)
						if !res.completed {
							names := make([]string, K)
							for i, f := range fates {
								names[i] = fateNames[f]
							}
							d2 := map[string]any{"fates": names}
							for k, v := range desc {
								d2[k] = v
							}
							rec.violationf(d2, "C02 backlog not drained within the bound after the network healed", "fates %v, healed at %d ms, limit %d ms: %s", names, healAt, res.sim.deadline, res.sim.progressSummary())
						}
						if res.sim.drops+res.sim.dups > 0 {
							rec.nontrivial(hashAny([]any{cfgi, v}))
						}
					}
				})
				rec.sample("first-K-fates", 2, desc)
			}
		}
		rec.note("exhaustive", true)
		rec.note("exhaustive_dimension", fmt.Sprintf("all 4^%d assignments of {deliver, drop, duplicate, deliver later than two RTOs} to the first %d datagrams (both directions, emission order) x 16 configurations (nodelay x nc x driving style x stream/message); everything else is sampled", K, K))

		// ---- sampled: long transfers, outages, every profile ---------------------
		for q := 0; q < env.pickN(480, 8000); q++ {
			idx := caseIdx
			caseIdx++
			if !env.mine(idx) {
				continue
			}
			rng := rec.seed(uint64(idx), 22)
			sc := genCoreScenario(rng, idx, "sampled")
			if q%3 == 0 {
				// total outage of a chosen length in mid-transfer
				l := pick(rng, []int{100, 1000, 10000, 60000, 300000, 1800000})
				st := rng.between(0, 3000)
				sc.Net.Name = "outage"
				sc.Net.Outages = [][2]int{{st, st + l}}
				sc.Net.HealAt = st + l + rng.between(1, 5000)
			}
			// delivery does not depend on where the sequence numbers and the clock are
			switch rng.intn(5) {
			case 0:
				sc.Clock = uint32(0) - uint32(rng.between(0, 20000))
				sc.SnA, sc.SnB = uint32(0)-uint32(rng.between(0, 300)), uint32(0)-uint32(rng.between(0, 300))
			case 1:
				sc.Clock = uint32(1<<31) - uint32(rng.between(0, 20000))
				sc.SnA, sc.SnB = uint32(1<<31)-uint32(rng.between(0, 300)), uint32(1<<31)-uint32(rng.between(0, 300))
			}
			rec.beginCase(sc)
			rec.guard(sc, func() {
				res := runCoreScenario(rec, &sc, rng, func(s *simCore) {
					segs := sc.AppA.TotalBytes/sc.CfgA.mss() + sc.AppB.TotalBytes/sc.CfgB.mss() + 2*(sc.AppA.NWrites+sc.AppB.NWrites)
					s.deadline = int64(sc.Net.HealAt) + c02Bound(&sc, int64(sc.Net.HealAt), segs)
				})
				rec.eval(1)
				res.tally(rec)
				if !res.completed {
					rec.violationf(sc, "C02 backlog not drained within the bound after the network healed", "profile %s healed at %d ms, limit %d ms: %s", sc.Net.Name, sc.Net.HealAt, res.sim.deadline, res.sim.progressSummary())
				}
				if res.sim.drops > 0 {
					rec.nontrivial(hashAny(sc))
				}
			})
			rec.sample("sampled", 2, scenarioBrief(&sc))
		}

		// ---- the documented limitation of raw message mode (suspect S9) ----------
		if env.mine(caseIdx) {
			idx := caseIdx
			rng := rec.seed(uint64(idx), 23)
			cfg := coreCfg{SndWnd: 32, RcvWnd: 2, Interval: 20, Mtu: 200}
			sc := coreScenario{Case: idx, Part: "message-larger-than-peer-window", CfgA: cfg, CfgB: cfg,
				AppA: appScript{Writes: []appWrite{{0, 3 * cfg.mss()}}, Raw: true, ReadBufs: []int{65536}},
				AppB: appScript{ReadBufs: []int{65536}},
				Net:  netProfile{Name: "clean", DelayMin: 10}, LimitMs: 3600 * 1000}
			sc.Net.HealAt = 1
			rec.beginCase(sc)
			rec.guard(sc, func() {
				installSimHooks()
				sc.AppA.expand(rng, cfg.mss(), "")
				sc.AppB.expand(rng, cfg.mss(), "")
				s := newSimCore(rec, sc, sc.CfgA, sc.CfgB, sc.AppA, sc.AppB, sc.Net.fate(rng), 0, 0, 0)
				defer s.close()
				s.deadline = sc.LimitMs
				s.start()
				ok := s.run(s.complete)
				rec.eval(1)
				if !ok || !s.complete() {
					rec.violationf(sc, "C02 raw core message mode: message with more fragments than the peer's receive window is accepted but never delivered", "3-fragment message, peer rcv_wnd=2, clean network, after 1 virtual hour: %s", s.progressSummary())
				}
			})
		}
		caseIdx++
	})
}

// TestVerifC02Sess: session-level tails. One-way transfers over FEC links (half
// of them 1+p, where every datagram has parity of its own) with loss, then a
// silent peer: everything must be read AND the sender's backlog must return
// to zero (the last acknowledgement may reach the sender only as an
// FEC-recovered packet).
func TestVerifC02Sess(t *testing.T) {
	rec := newRec(t, "C02")
	defer rec.finish(t)
	env := rec.env
	var caseIdx int64 = 1 << 32
	for q := 0; q < env.pickN(160, 4000); q++ {
		idx := caseIdx
		caseIdx++
		if !env.mine(idx) {
			continue
		}
		rng := rec.seed(uint64(idx), 201)
		sc := genSessScenario(rng, idx, "session-tail")
		sc.Link.Cipher = cipherNames[q%len(cipherNames)]
		switch q % 4 {
		case 0, 1:
			sc.Link.D, sc.Link.P = 1, rng.between(1, 3)
		case 2:
			sc.Link.D, sc.Link.P = rng.between(2, 4), rng.between(1, 3)
		default:
			sc.Link.D, sc.Link.P = 0, 0
		}
		for _, c := range []*sessCfg{&sc.CfgC, &sc.CfgS} {
			if c.Mtu != 0 && c.Mtu < sc.Link.overhead()+IKCP_OVERHEAD+30 {
				c.Mtu = 0
			}
			c.SndWnd = max(c.SndWnd, 8)
			c.RcvWnd = max(c.RcvWnd, 8)
		}
		sc.BytesCS = rng.between(500, 20000)
		sc.BytesSC = 0
		if q%8 == 7 {
			sc.BytesSC = rng.between(500, 5000)
		}
		// the fault period is finite (the property's precondition): the tail of the
		// transfer usually falls into it, the network heals later
		sc.Net = netProfile{Name: "lossy-tail", Loss: 0.05 + rng.float()*0.3, DelayMin: rng.between(1, 30), HealAt: rng.between(20000, 90000), HealJit: 3}
		sc.Net.DelayMax = sc.Net.DelayMin + rng.between(0, 20)
		sc.LimitMs = 2 * 3600 * 1000
		rec.beginCase(sc)
		synctest.Test(t, func(t *testing.T) {
			res := runSessScenario(t, rec, &sc, rng, nil)
			res.tally(rec)
			rec.eval(1)
			if !res.completed {
				d := ""
				for _, x := range res.xs {
					d += x.progress() + " "
				}
				if res.client != nil {
					d += " client: " + sessProgress(res.client)
				}
				if res.server != nil {
					d += " server: " + sessProgress(res.server)
				}
				rec.violation("C02 transfer did not complete within the virtual-time limit", d, sc)
			}
			if res.w.hub.nDropped.Load() > 0 {
				rec.nontrivial(hashAny(sc))
			}
		})
		rec.sample("session-tail", 2, sessBrief(&sc))
	}
}
