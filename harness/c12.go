//go:build verif

package kcp

// C12 — invariance under sequence-number and clock wrap-around.
// Metamorphic monitor: one deterministic simcore scenario is executed with
// (sn offsets, clock offset) = 0 and again shifted; after subtracting the
// offsets the datagram traces, API return values and event times must be
// byte-identical. FEC: groups across the id wrap (C07 oracle) and autotune
// period detection with samples straddling the wrap.

import (
	"bytes"
	"fmt"
	"testing"
)

type wrapShift struct {
	Name  string `json:"name"`
	SnA   uint32 `json:"sn_a"`
	SnB   uint32 `json:"sn_b"`
	Clock uint32 `json:"clock"`
}

func TestVerifC12(t *testing.T) {
	rec := newRec(t, "C12")
	defer rec.finish(t)
	env := rec.env
	var caseIdx int64
	inBubble(t, func() {
		for q := 0; q < env.pickN(320, 12000); q++ {
			idx := caseIdx
			caseIdx++
			if !env.mine(idx) {
				continue
			}
			rng := rec.seed(uint64(idx), 12)
			sc := genCoreScenario(rng, idx, "metamorphic")
			// bounded so that both runs are cheap; every profile stays in play
			sc.AppA.TotalBytes = min(sc.AppA.TotalBytes, 200*sc.CfgA.mss())
			sc.AppB.TotalBytes = min(sc.AppB.TotalBytes, 100*sc.CfgB.mss())
			for i := range sc.Net.Outages {
				if sc.Net.Outages[i][1]-sc.Net.Outages[i][0] > 30000 {
					sc.Net.Outages[i][1] = sc.Net.Outages[i][0] + 30000
				}
			}
			if sc.Net.HealAt > 60000 {
				sc.Net.HealAt = 60000
			}
			sc.LimitMs = 4 * 3600 * 1000
			rec.beginCase(sc)
			rec.guard(sc, func() {
				run := func(sh wrapShift) (*simCore, []byte, bool) {
					c := sc
					c.SnA, c.SnB, c.Clock = sh.SnA, sh.SnB, sh.Clock
					r := newRng(uint64(idx), 1212)
					var tr []byte
					res := runCoreScenario(rec, &c, r, func(s *simCore) { s.traceOn = true })
					tr = res.sim.trace
					return res.sim, tr, res.completed
				}
				base, baseTrace, baseDone := run(wrapShift{Name: "base"})
				segsA := int(base.ends[0].k.snd_nxt)
				segsB := int(base.ends[1].k.snd_nxt)
				dur := base.now
				// offsets placing the 2^32 / 2^31 boundary before, inside (at a
				// random fraction of the transfer) and after the transfer
				mk := func(boundary uint64, extent int) uint32 {
					k := rng.between(-extent/4, extent+extent/4)
					if rng.chance(0.15) {
						k = rng.intn(3) - 1
					}
					return uint32(boundary - uint64(int64(k)))
				}
				shifts := []wrapShift{
					{"sn-2^32", mk(1<<32, segsA), mk(1<<32, segsB), 0},
					{"sn-2^31", mk(1<<31, segsA), mk(1<<31, segsB), 0},
					{"clock-2^32", 0, 0, mk(1<<32, int(dur))},
					{"clock-2^31", 0, 0, mk(1<<31, int(dur))},
					{"all-2^32", mk(1<<32, segsA), mk(1<<32, segsB), mk(1<<32, int(dur))},
					{"all-2^31", mk(1<<31, segsA), mk(1<<31, segsB), mk(1<<31, int(dur))},
					{"random", rng.u32(), rng.u32(), rng.u32()},
				}
				nsh := 3
				if env.thorough() {
					nsh = len(shifts)
				}
				for _, si := range rng.perm(len(shifts))[:nsh] {
					sh := shifts[si]
					sim, tr, done := run(sh)
					rec.eval(1)
					rec.count("base_shifted_pairs_compared", 1)
					rec.count("trace_bytes_compared", int64(len(baseTrace)))
					rec.count("pairs_"+sh.Name, 1)
					d := map[string]any{"scenario": scenarioBrief(&sc), "shift": sh, "case": idx}
					if done != baseDone || sim.now != base.now {
						rec.violationf(d, "C12 shifted run ends differently", "base: completed=%v at %d ms; shifted (%s): completed=%v at %d ms", baseDone, base.now, sh.Name, done, sim.now)
						continue
					}
					if !bytes.Equal(tr, baseTrace) {
						at := firstDiff(tr, baseTrace)
						rec.violationf(d, "C12 normalised traces differ between base and shifted run", "shift %s (snA=%d snB=%d clock=%d): traces of %d / %d bytes first differ at byte %d (%s)", sh.Name, sh.SnA, sh.SnB, sh.Clock, len(baseTrace), len(tr), at, traceAround(baseTrace, tr, at))
						continue
					}
					for i := 0; i < 2; i++ {
						if sim.ends[i].rOff != base.ends[i].rOff {
							rec.violationf(d, "C12 delivered data differs between base and shifted run", "end %d read %d vs %d bytes", i, sim.ends[i].rOff, base.ends[i].rOff)
						}
					}
					if base.drops > 0 {
						rec.nontrivial(hashAny([]any{idx, sh}))
					}
				}
				rec.count("base_datagrams", int64(base.gsent))
			})
			rec.sample("metamorphic", 3, scenarioBrief(&sc))
		}
	})

	// ---- FEC ids across the wrap ------------------------------------------------
	const maxPayload = mtuLimit - fecHeaderSizePlus2
	for q := 0; q < env.pickN(400, 8000); q++ {
		idx := caseIdx
		caseIdx++
		if !env.mine(idx) {
			continue
		}
		rng := rec.seed(uint64(idx), 121)
		d, p := rng.between(1, 10), rng.between(1, 4)
		n := d + p
		desc := map[string]any{"part": "fec-wrap", "case": idx, "d": d, "p": p}
		rec.beginCase(desc)
		rec.guard(desc, func() {
			enc := newFECEncoder(d, p, 0)
			dec := newFECDecoder(d, p)
			j := rng.between(0, 3*n)
			groupsBefore := j/n + 1
			enc.next = enc.paws - uint32(groupsBefore*n)
			desc["encoder_start"] = enc.next
			ngroups := groupsBefore + rng.between(1, 4)
			resetDecoder(dec, enc.next)
			emitted := 0
			wrapped := false
			for g := 0; g < ngroups; g++ {
				// one group in four is sent after a pause: the encoder skips its parity
				// and advances the ids past it (also in the last group before the wrap)
				rto := uint32(fecNoSkip)
				if rng.chance(0.25) {
					rto = 0
					rec.count("fec_wrap_groups_with_skipped_parity", 1)
				}
				grp, msg := makeGroup(enc, sizeVector(pick(rng, sizeKinds), d, rng, maxPayload), rng, rto)
				if msg != "" {
					rec.violation("C12 FEC encoder: malformed group near the id wrap", msg, desc)
					return
				}
				if grp.base == 0 && g > 0 {
					wrapped = true
				}
				o := newGroupOracle(&grp)
				order := rng.perm(len(grp.pkts))
				drop := rng.intn(p + 1)
				if len(grp.pkts) < n {
					drop = rng.intn(2) // no parity: at most one packet lost (not recoverable, must not confuse the decoder)
				}
				for _, i := range order[drop:] {
					if key, detail := o.feed(dec, i, true); key != "" {
						rec.violation("C12 [FEC across the id wrap] "+key, detail, desc)
						return
					}
				}
				emitted += o.emitted
			}
			rec.eval(1)
			rec.count("fec_wrap_runs", 1)
			rec.count("fec_wrap_shards_recovered", int64(emitted))
			if !wrapped {
				rec.violation("C12 FEC encoder ids did not wrap to 0 after paws", fmt.Sprint(enc.next), desc)
			}
			if emitted > 0 {
				rec.nontrivial(hashAny(desc))
			}
		})
		rec.sample("fec-wrap", 1, desc)
	}

	// ---- autotune: period detection with samples straddling 2^32 ----------------
	for q := 0; q < env.pickN(400, 8000); q++ {
		idx := caseIdx
		caseIdx++
		if !env.mine(idx) {
			continue
		}
		rng := rec.seed(uint64(idx), 122)
		d, p := rng.between(1, 20), rng.between(1, 10)
		n := d + p
		start := uint32(0) - uint32(rng.between(1, 3*n)) // a few ids before 2^32
		if q%4 == 0 {
			start = (1 << 31) - uint32(rng.between(1, 3*n))
		}
		// align so that position in the cycle is id % n of a counter that wraps
		// naturally at 2^32 (autotune itself does not know paws)
		desc := map[string]any{"part": "autotune-wrap", "case": idx, "d": d, "p": p, "start": start}
		rec.beginCase(desc)
		rec.guard(desc, func() {
			var tune autoTune
			cnt := rng.between(3*n, 6*n)
			phase := rng.intn(n)
			ids := make([]uint32, cnt)
			for i := range ids {
				ids[i] = start + uint32(i)
			}
			// arrival order locally shuffled
			for i := range ids {
				k := i + rng.intn(4)
				if k < len(ids) {
					ids[i], ids[k] = ids[k], ids[i]
				}
			}
			for _, id := range ids {
				pos := (int(id-start) + phase) % n
				tune.Sample(pos < d, id)
			}
			gotD, gotP := tune.FindPeriod(true), tune.FindPeriod(false)
			rec.eval(1)
			rec.count("autotune_wrap_runs", 1)
			if gotD != d || gotP != p {
				rec.violationf(desc, "C12 autotune period detection differs across the wrap", "contiguous ids from %d (%d samples) with true period %d/%d: detected %d/%d", start, cnt, d, p, gotD, gotP)
			}
			// the same samples shifted to the middle of the id space must agree
			var ref autoTune
			for _, id := range ids {
				pos := (int(id-start) + phase) % n
				ref.Sample(pos < d, id-start+1000000)
			}
			if rd, rp := ref.FindPeriod(true), ref.FindPeriod(false); rd != gotD || rp != gotP {
				rec.violationf(desc, "C12 autotune period detection differs across the wrap", "shifted copy detects %d/%d, wrapped copy %d/%d", rd, rp, gotD, gotP)
			}
			rec.nontrivial(hashAny(desc))
		})
		rec.sample("autotune-wrap", 1, desc)
	}
}

func traceAround(a, b []byte, at int) string {
	da, db := dumpTrace(a), dumpTrace(b)
	i := 0
	for i < len(da) && i < len(db) && da[i] == db[i] {
		i++
	}
	lo := max(0, i-6)
	out := "common prefix ends with:\n"
	for _, l := range da[lo:i] {
		out += "   " + l + "\n"
	}
	out += "then base:\n"
	for _, l := range da[i:min(len(da), i+5)] {
		out += "   " + l + "\n"
	}
	out += "but shifted:\n"
	for _, l := range db[i:min(len(db), i+5)] {
		out += "   " + l + "\n"
	}
	return out
}
