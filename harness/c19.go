//go:build verif

package kcp

// C19 — out-of-band messages: intact or absent, never to another session, and
// never disturbing the reliable stream or its FEC protection.

import (
	"encoding/binary"
	"fmt"
	"net"
	"sync"
	"sync/atomic"
	"testing"
	"testing/synctest"
	"time"
)

type oobBook struct {
	mu   sync.Mutex
	sent map[string]map[uint64]int // "peer/dir" -> payload hash -> times sent
	got  map[string]map[uint64]int
	emptySent, emptyGot map[string]int
	extra                map[string]int // copies of a session's datagrams the harness delivered again itself
}

func oobPayload(peer int, dir byte, serial uint32, n int) []byte {
	b := make([]byte, n)
	fillContent(0x0B0B00+uint64(peer)*4+uint64(dir), uint64(n)*4099, b)
	if n >= 12 {
		binary.LittleEndian.PutUint32(b[0:], uint32(peer))
		b[4] = dir
		binary.LittleEndian.PutUint32(b[5:], serial)
		binary.LittleEndian.PutUint16(b[9:], uint16(n))
		b[11] = 0x0B
	}
	return b
}

func TestVerifC19(t *testing.T) {
	rec := newRec(t, "C19")
	defer rec.finish(t)
	// "never alters, corrupts ... the reliable stream": the stream's content oracle,
	// and the pool sanitizer (a buffer with two owners is how a stream gets corrupted)
	rec.alsoOwn = []string{"C01", "C15 pooled buffer"}
	env := rec.env
	var caseIdx int64
	for q := 0; q < env.pickN(96, 2400); q++ {
		idx := caseIdx
		caseIdx++
		if !env.mine(idx) {
			continue
		}
		rng := rec.seed(uint64(idx), 19)
		sc := c11Scenario{Case: idx, Part: "oob"}
		sc.Link.Cipher = cipherNames[q%len(cipherNames)]
		sc.Link.D, sc.Link.P = pick(rng, []int{1, 2, 3, 10}), pick(rng, []int{1, 2, 3})
		sc.Link.UDPAddr = rng.chance(0.5)
		sc.Link.Batch = rng.chance(0.4)
		sc.Clients = pick(rng, []int{1, 1, 2, 4, 8})
		sc.Net = randomProfile(rng, rng.between(2000, 8000))
		if sc.Net.Loss > 0.3 {
			sc.Net.Loss = 0.3
		}
		for i := range sc.Net.Outages {
			if sc.Net.Outages[i][1] > sc.Net.Outages[i][0]+3000 {
				sc.Net.Outages[i][1] = sc.Net.Outages[i][0] + 3000
			}
		}
		sc.Bytes = rng.between(5000, 40000)
		rec.beginCase(sc)
		synctest.Test(t, func(t *testing.T) { runC19(t, rec, &sc, rng, q) })
		rec.eval(1)
		rec.nontrivial(hashAny(sc))
		rec.sample("oob", 2, sc)
	}

	// ---- API on sessions without FEC ------------------------------------------
	for q := 0; q < env.pickN(16, 160); q++ {
		idx := caseIdx
		caseIdx++
		if !env.mine(idx) {
			continue
		}
		rng := rec.seed(uint64(idx), 191)
		desc := map[string]any{"case": idx, "part": "no-fec-api", "peer_has_fec": q%2 == 1}
		rec.beginCase(desc)
		synctest.Test(t, func(t *testing.T) {
			link := linkCfg{Cipher: pick(rng, cipherNames), UDPAddr: rng.chance(0.5)}
			if q%2 == 1 {
				// the client has FEC, the server side has none
				link.D, link.P = 2, 1
				link.SrvFEC, link.SD, link.SP = true, 0, 0
			}
			w, _, client, _, server := c13World(t, rec, desc, link, uint64(idx))
			defer yieldMode.Store(0)
			// traffic in both directions so that the FEC-less side has received
			// FEC-framed packets
			for i := 0; i < 20; i++ {
				client.Write(make([]byte, 100))
				server.Write(make([]byte, 100))
				time.Sleep(20 * time.Millisecond)
			}
			check := func(s *UDPSession, name string) {
				if n := s.GetOOBMaxSize(); n != 0 {
					rec.violationf(desc, "C19 session without FEC reports a non-zero out-of-band size", "%s: GetOOBMaxSize()=%d", name, n)
				}
				if s.SendOOB([]byte("x")) == nil {
					rec.violationf(desc, "C19 session without FEC accepted SendOOB", "%s", name)
				}
				if s.SetOOBHandler(func([]byte) {}) == nil {
					rec.violationf(desc, "C19 session without FEC accepted SetOOBHandler", "%s", name)
				}
				rec.count("no_fec_api_checks", 1)
			}
			check(server, "server (no FEC)")
			if q%2 == 0 {
				check(client, "client (no FEC)")
			}
			w.shutdown(nil, true)
		})
		rec.eval(1)
		rec.nontrivial(hashAny(desc))
	}
}

func runC19(t *testing.T, rec *vrec, sc *c11Scenario, rng *vrng, q int) {
	netRng := newRng(rng.u64())
	pf := sc.Net.fate(netRng)
	laddrS := ""
	sw := newSessWorld(t, rec, sc, sc.Link, uint64(sc.Case), func(from, to string, nth int, now int64, data []byte) []int {
		dir := 0
		if from == laddrS {
			dir = 1
		}
		return pf(dir, nth, now, data)
	})
	refTime = time.Now()
	yieldMode.Store(1)
	defer yieldMode.Store(0)
	scCopy := *sc
	w := &c11World{sessWorld: sw, sc: &scCopy, peers: map[string]*c11Peer{}, extra: map[string]bool{}}
	w.listen()
	laddrS = w.laddr.String()
	book := &oobBook{sent: map[string]map[uint64]int{}, got: map[string]map[uint64]int{}, emptySent: map[string]int{}, emptyGot: map[string]int{}, extra: map[string]int{}}
	viol := func(key, format string, args ...any) {
		rec.violation(key, fmt.Sprintf("t=%dms ", w.hub.nowMs())+fmt.Sprintf(format, args...), sc)
	}
	var delivered atomic.Int64
	handler := func(peer int, dir byte) OOBCallBackType {
		k := fmt.Sprintf("%d/%d", peer, dir)
		return func(b []byte) {
			delivered.Add(1)
			h := hashBytes(b)
			book.mu.Lock()
			defer book.mu.Unlock()
			if len(b) == 0 {
				book.emptyGot[k]++
				if book.emptyGot[k] > 4*book.emptySent[k]+book.extra[k] {
					viol("C19 out-of-band handler received a payload that was never sent on that session", "peer %d dir %d: empty payload delivered %d times, sent %d times", peer, dir, book.emptyGot[k], book.emptySent[k])
				}
				return
			}
			if book.sent[k][h] == 0 {
				// somebody else's, or altered?
				for ok, m := range book.sent {
					if ok != k && m[h] > 0 {
						viol("C19 out-of-band message delivered to another session", "handler of peer %d dir %d received a %d-byte payload sent on %s", peer, dir, len(b), ok)
						return
					}
				}
				what := ""
				if isPoison(b) {
					what = " (pool-sanitizer poison)"
				}
				viol("C19 out-of-band handler received bytes that were never sent (altered or truncated message)", "peer %d dir %d: %d bytes%s", peer, dir, len(b), what)
				return
			}
			if book.got[k] == nil {
				book.got[k] = map[uint64]int{}
			}
			book.got[k][h]++
			if book.got[k][h] > 4*book.sent[k][h]+book.extra[k] {
				viol("C19 out-of-band message delivered more often than the network could have copied it", "peer %d dir %d: %d deliveries of a payload sent %d time(s)", peer, dir, book.got[k][h], book.sent[k][h])
			}
		}
	}
	twoSided := q%3 != 0
	var serial atomic.Uint32
	stop := make(chan struct{})
	var senders sync.WaitGroup
	var sendMu sync.Mutex
	sendersStopped := false
	var sentN, refusedOversize atomic.Int64
	sender := func(s *UDPSession, peer int, dir byte, r *vrng) {
		defer senders.Done()
		k := fmt.Sprintf("%d/%d", peer, dir)
		for {
			select {
			case <-stop:
				return
			case <-time.After(time.Duration(r.between(1, 120)) * time.Millisecond):
			}
			burst := 1
			if r.chance(0.1) {
				burst = r.between(5, 60)
			}
			for i := 0; i < burst; i++ {
				max := s.GetOOBMaxSize()
				var n int
				switch r.intn(8) {
				case 0:
					n = 0
				case 1:
					n = max
				case 2:
					n = max + 1
				case 3:
					n = r.between(1, 16)
				default:
					n = r.intn(max + 1)
				}
				b := oobPayload(peer, dir, serial.Add(1), n)
				h := hashBytes(b)
				if n <= max {
					// booked before the call: it may be delivered before SendOOB returns
					book.mu.Lock()
					if n == 0 {
						book.emptySent[k]++
					} else {
						if book.sent[k] == nil {
							book.sent[k] = map[uint64]int{}
						}
						book.sent[k][h]++
					}
					book.mu.Unlock()
				}
				err := s.SendOOB(b)
				switch {
				case n > max && err == nil:
					viol("C19 oversize out-of-band payload accepted", "size %d, GetOOBMaxSize %d", n, max)
				case n > max:
					refusedOversize.Add(1)
				case err != nil && classify(0, err) != "closed":
					viol("C19 SendOOB refused a payload within GetOOBMaxSize", "size %d of max %d: %v", n, max, err)
				case err == nil:
					sentN.Add(1)
				}
			}
		}
	}
	cfg := sessCfg{}
	w.onAccept = func(p *c11Peer, s *UDPSession) {
		s.SetOOBHandler(handler(p.id, 0))
		w.watch(s, fmt.Sprintf("server-of-%d", p.id), w.laddr, p.addr, cfg, 0)
		sendMu.Lock()
		if !sendersStopped {
			senders.Add(1)
			go sender(s, p.id, 1, newRng(uint64(sc.Case), 77, uint64(p.id)))
		}
		sendMu.Unlock()
	}
	go w.acceptLoop()
	var peers []*c11Peer
	for i := 0; i < sc.Clients; i++ {
		p := w.newPeer(i, byte(2+i), 5000+i, uint32(0x20000+i*31+int(sc.Case&0xff)), sc.Bytes, nil)
		peers = append(peers, p)
		if twoSided {
			p.sess.SetOOBHandler(handler(p.id, 1))
		}
		w.watch(p.sess, fmt.Sprintf("client-%d", p.id), p.addr, w.laddr, cfg, p.up)
		w.clientIO(p, p.sess)
		senders.Add(1)
		go sender(p.sess, p.id, 0, newRng(uint64(sc.Case), 78, uint64(i)))
	}
	snmp0 := DefaultSnmp.Copy()
	// wait for the streams: not altered (content oracle in the handlers), not
	// permanently delayed
	complete := func() bool {
		for _, p := range peers {
			if p.upRead.Load() != int64(p.upLen) || p.dnRead.Load() != int64(p.downLen) {
				return false
			}
		}
		return true
	}
	deadline := time.Now().Add(time.Duration(sc.Net.HealAt)*time.Millisecond + 10*time.Minute)
	for !complete() && time.Now().Before(deadline) {
		time.Sleep(100 * time.Millisecond)
	}
	if !complete() {
		for _, p := range peers {
			if p.upRead.Load() != int64(p.upLen) || p.dnRead.Load() != int64(p.downLen) {
				viol("C19 reliable stream permanently delayed while out-of-band messages were sent", "peer %d: server read %d/%d, client read %d/%d; client %s", p.id, p.upRead.Load(), p.upLen, p.dnRead.Load(), p.downLen, sessProgress(p.sess))
				break
			}
		}
	}
	// out-of-band frames cut short inside their conversation id (8..11 bytes after
	// decryption), to the listener from a known and an unknown address and to a
	// dialled session: not intact, so they must simply vanish
	if len(peers) > 0 {
		sl := newSealer(cipherByName(w.link.Cipher), w.key)
		tr := newRng(uint64(sc.Case), 79)
		for k := 0; k < 4; k++ {
			p := peers[tr.intn(len(peers))]
			frame := make([]byte, 8, 12)
			binary.LittleEndian.PutUint32(frame, tr.u32())
			binary.LittleEndian.PutUint16(frame[4:], typeOOB)
			binary.LittleEndian.PutUint16(frame[6:], uint16(2+k))
			var conv [4]byte
			binary.LittleEndian.PutUint32(conv[:], p.conv)
			frame = append(frame, conv[:k]...)
			w.hub.inject(p.addr, w.laddr.String(), sl.seal(tr, frame))
			w.hub.inject(w.addr(byte(180+k), 7700+k), w.laddr.String(), sl.seal(tr, frame))
			w.hub.inject(w.laddr, p.addr.String(), sl.seal(tr, frame))
			rec.count("truncated_oob_frames_injected", 3)
		}
		time.Sleep(5 * time.Millisecond)
	}
	// reconnect from the same address with a new conversation whose first
	// packets are out-of-band: they must not reach the old session's handler
	if len(peers) > 0 && sc.Net.DelayMax <= 500 && !sc.NoReconnect {
		old := peers[0]
		// keep copies of the earlier conversation's last out-of-band datagrams:
		// the network may deliver duplicates of them late
		var staleMu sync.Mutex
		var stale [][]byte
		oldAddr, lAddr := old.addr.String(), w.laddr.String()
		capture := func(from, to net.Addr, data []byte, kind string) {
			if kind == "out-of-band" && from.String() == oldAddr && to.String() == lAddr {
				staleMu.Lock()
				stale = append(stale, data)
				if len(stale) > 6 {
					stale = stale[1:]
				}
				staleMu.Unlock()
			}
		}
		w.onObserved.Store(&capture)
		for i := 0; i < 3; i++ {
			b := oobPayload(old.id, 0, serial.Add(1), 20+i)
			ok := fmt.Sprintf("%d/%d", old.id, 0)
			book.mu.Lock()
			if book.sent[ok] == nil {
				book.sent[ok] = map[uint64]int{}
			}
			book.sent[ok][hashBytes(b)]++
			book.mu.Unlock()
			old.sess.SendOOB(b)
		}
		time.Sleep(time.Duration(sc.Net.DelayMax+50) * time.Millisecond)
		w.onObserved.Store(nil)
		old.closedByReconnect.Store(true)
		old.sess.Close()
		// Everything the earlier conversation sent has landed before the new one
		// begins: a late acknowledgement or window probe of the old conversation
		// whose sn field reads 0 "starts a conversation" as far as the listener can
		// tell (C11 allows that replacement), and would be mistaken here for an
		// effect of out-of-band packets. The late out-of-band datagrams are
		// delivered explicitly below.
		time.Sleep(time.Duration(sc.Net.DelayMax+sc.Net.HealJit+100) * time.Millisecond)
		// the wire decoder of the old server session must not judge the datagrams of
		// its successor (the new one is registered when it is accepted)
		w.mu.Lock()
		delete(w.flows, lAddr+">"+oldAddr)
		w.mu.Unlock()
		np := w.newPeer(500, 0, 0, old.conv+0x7000000, 100, old.conn)
		w.watch(np.sess, fmt.Sprintf("client-%d", np.id), np.addr, w.laddr, cfg, np.up)
		k := fmt.Sprintf("%d/%d", np.id, 0)
		for i := 0; i < 4; i++ {
			b := oobPayload(np.id, 0, serial.Add(1), 40+i)
			book.mu.Lock()
			if book.sent[k] == nil {
				book.sent[k] = map[uint64]int{}
			}
			book.sent[k][hashBytes(b)]++
			book.mu.Unlock()
			np.sess.SendOOB(b)
			time.Sleep(5 * time.Millisecond)
		}
		// late out-of-band datagrams of the earlier conversation arrive while the
		// listener still holds the earlier session (they belong to it) ...
		staleMu.Lock()
		early := stale
		staleMu.Unlock()
		book.mu.Lock()
		book.extra[fmt.Sprintf("%d/%d", old.id, 0)] += 2 * len(early)
		book.mu.Unlock()
		for i, d := range early {
			if i%2 == 0 {
				w.hub.inject(old.addr, lAddr, d)
			}
		}
		w.clientIO(np, np.sess)
		// out-of-band packets of the earlier conversation are still in flight:
		// they must neither reach the new session nor stall or replace it
		lim := time.Now().Add(time.Duration(sc.Net.HealAt)*time.Millisecond + 5*time.Minute)
		// ... and late duplicates of them arrive once the new conversation is
		// established at the listener
		for np.accepts.Load() == 0 && time.Now().Before(lim) {
			time.Sleep(20 * time.Millisecond)
		}
		staleMu.Lock()
		late := stale
		staleMu.Unlock()
		if np.accepts.Load() > 0 && len(late) > 0 {
			before := w.accepted.Load()
			for _, d := range late {
				w.hub.inject(old.addr, lAddr, d)
				time.Sleep(3 * time.Millisecond)
			}
			time.Sleep(500 * time.Millisecond)
			rec.count("stale_oob_of_earlier_conversation_injected", int64(len(late)))
			if w.accepted.Load() != before {
				viol("C19 late out-of-band datagram of an earlier conversation replaced the session of the conversation that followed it", "new conversation %#x accepted %d time(s), earlier conversation %#x accepted %d time(s), %d stale datagrams", np.conv, np.accepts.Load(), old.conv, old.accepts.Load(), len(late))
			}
		}
		for (np.upRead.Load() != int64(np.upLen) || np.dnRead.Load() != int64(np.downLen)) && time.Now().Before(lim) {
			time.Sleep(100 * time.Millisecond)
		}
		if np.upRead.Load() != int64(np.upLen) || np.dnRead.Load() != int64(np.downLen) {
			viol("C19 out-of-band packets of an earlier conversation from the same address stalled the new conversation's stream", "new conversation %#x: server read %d/%d, client read %d/%d, accepted %d time(s); earlier conversation %#x accepted %d time(s); client %s", np.conv, np.upRead.Load(), np.upLen, np.dnRead.Load(), np.downLen, np.accepts.Load(), old.conv, old.accepts.Load(), sessProgress(np.sess))
		}
		rec.count("reconnect_with_oob_first", 1)
	}
	sendMu.Lock()
	sendersStopped = true
	sendMu.Unlock()
	close(stop)
	senders.Wait()
	time.Sleep(time.Second)
	snmp := DefaultSnmp.Copy()
	rec.count("oob_sent", sentN.Load())
	rec.count("oob_delivered_and_checked", delivered.Load())
	rec.count("oob_oversize_refused", refusedOversize.Load())
	rec.count("fec_recovered_with_oob_interleaved", int64(snmp.FECRecovered-snmp0.FECRecovered))
	w.mu.Lock()
	flows := make([]*wireFlow, 0, len(w.flows))
	for _, f := range w.flows {
		flows = append(flows, f)
	}
	w.mu.Unlock()
	for _, f := range flows {
		f.finish(0, false)
	}
	w.shutdown(nil, false)
	synctest.Wait() // the accept loop has ended: no more handlers are started
	done := make(chan struct{})
	go func() { w.wg.Wait(); close(done) }()
	select {
	case <-done:
	case <-time.After(time.Minute):
		viol("C13 caller still blocked a virtual minute after everything was closed", "")
	}
	time.Sleep(10 * time.Minute)
	synctest.Wait()
	w.leakCheck()
	w.reap()
}
