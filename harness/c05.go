//go:build verif

package kcp

// C05 — no datagram can crash or bloat the process.
// Seeded hostile-input generators (random strings, structure-aware mutants of
// real datagrams, mutants re-sealed with the scenario's key) injected into the
// raw core, the raw FEC decoder, and the listener / dialled-session paths of
// live sessions (simnet and real loopback UDP). Monitors: process survival,
// structural bounds after every injection, heap growth, and the content oracle
// of the concurrent legitimate transfer.

import (
	"crypto/aes"
	"crypto/cipher"
	"encoding/binary"
	"fmt"
	"hash/crc32"
	"net"
	"runtime"
	"sync/atomic"
	"testing"
	"testing/synctest"
	"time"
)

func heapAfterGC() uint64 {
	runtime.GC()
	var m runtime.MemStats
	runtime.ReadMemStats(&m)
	return m.HeapAlloc
}

// hostileSegs builds a datagram of KCP segments with fields at boundary values.
func hostileSegs(rng *vrng, conv uint32, k *KCP, maxLen int) []byte {
	var out []byte
	for j := 0; j < rng.between(1, 8); j++ {
		sg := wseg{conv: conv, cmd: uint8(pick(rng, []int{81, 81, 82, 83, 84, 80, 85, 0, 255})), frg: uint8(pick(rng, []int{0, 0, 1, 2, 254, 255})),
			wnd: pick(rng, []uint16{0, 1, 32, 65535}), ts: rng.u32(), sn: rng.u32(), una: rng.u32()}
		if k != nil {
			switch rng.intn(6) {
			case 0:
				sg.sn = k.rcv_nxt + uint32(rng.intn(int(k.rcv_wnd)+2))
			case 1:
				sg.sn = k.rcv_nxt - uint32(rng.intn(3))
			case 2:
				sg.una = k.snd_una + uint32(rng.intn(int(k.snd_nxt-k.snd_una)+2))
				sg.sn = k.snd_una + uint32(rng.intn(int(k.snd_nxt-k.snd_una)+2))
			}
		}
		if rng.chance(0.1) {
			sg.conv = rng.u32()
		}
		n := pick(rng, []int{0, 0, 1, 24, 100, 1376, 1400, 1476, 1500, 1501, 3000, rng.intn(2000)})
		n = min(n, maxLen)
		sg.data = rng.bytes(n)
		b := encodeSeg(sg)
		// lie about the length now and then
		switch rng.intn(8) {
		case 0:
			binary.LittleEndian.PutUint32(b[20:], uint32(n+1+rng.intn(100)))
		case 1:
			binary.LittleEndian.PutUint32(b[20:], pick(rng, []uint32{0xffffffff, 0x80000000, 0x7fffffff, 65536}))
		case 2:
			if n > 0 {
				binary.LittleEndian.PutUint32(b[20:], uint32(rng.intn(n)))
			}
		}
		out = append(out, b...)
	}
	switch rng.intn(6) {
	case 0:
		out = out[:rng.intn(len(out)+1)]
	case 1:
		out = append(out, rng.bytes(rng.between(1, 30))...)
	}
	return out
}

func TestVerifC05(t *testing.T) {
	rec := newRec(t, "C05")
	defer rec.finish(t)
	env := rec.env
	var caseIdx int64
	installHooks()
	sanEnabled.Store(true)
	schedBubbleMode.Store(false)

	// ---- part 1: raw core Input -------------------------------------------------
	for q := 0; q < env.pickN(160, 800); q++ {
		idx := caseIdx
		caseIdx++
		if !env.mine(idx) {
			continue
		}
		rng := rec.seed(uint64(idx), 5)
		desc := map[string]any{"part": "core-input", "case": idx}
		rec.beginCase(desc)
		setCurrent(rec, desc)
		rec.guard(desc, func() {
			conv := rng.u32()
			var outBytes int64
			k := NewKCP(conv, func(buf []byte, size int) { outBytes += int64(size) })
			k.WndSize(pick(rng, []int{1, 4, 32, 128, 1024}), pick(rng, []int{1, 4, 32, 128, 1024}))
			k.NoDelay(rng.intn(2), 10, rng.intn(3), rng.intn(2))
			if rng.chance(0.5) {
				k.stream = 1
			}
			if rng.chance(0.3) {
				k.SetMtu(pick(rng, []int{50, 300, 1500}))
			}
			desc["rcv_wnd"], desc["mtu"] = k.rcv_wnd, k.mtu
			for i := 0; i < rng.intn(40); i++ {
				k.Send(rng.bytes(rng.between(1, 3000)))
			}
			k.flush(IKCP_FLUSH_FULL)
			N := env.pickN(1500, 4000)
			var h1, h2 uint64
			buf := make([]byte, 70000)
			for i := 0; i < 2*N; i++ {
				var in []byte
				switch rng.intn(6) {
				case 0:
					in = rng.bytes(pick(rng, []int{0, 1, 23, 24, 25, 47, 48, rng.intn(1500), rng.intn(65536)}))
				case 1:
					in = hostileSegs(rng, conv, k, 70000)
				case 2:
					// an in-order run of data segments with arbitrary fragment
					// counters: they reach the delivery queue and the reader
					for j := 0; j < rng.between(1, 6); j++ {
						sg := wseg{conv: conv, cmd: IKCP_CMD_PUSH, frg: uint8(pick(rng, []int{0, 0, 1, 1, 2, 3, 255})), wnd: 32, sn: k.rcv_nxt + uint32(j), una: k.snd_una, data: rng.bytes(pick(rng, []int{0, 1, 100, 100, 1000}))}
						in = append(in, encodeSeg(sg)...)
					}
				default:
					in = hostileSegs(rng, conv, k, 1476)
				}
				desc["last_input_len"] = len(in)
				pt := PacketType(rng.intn(2))
				k.Input(append([]byte(nil), in...), pt, rng.chance(0.3))
				if msg := coreBounds(k); msg != "" {
					rec.violationf(desc, "C05 hostile input broke a buffering bound of the core", "%s after input #%d of %d bytes", msg, i, len(in))
					return
				}
				if rng.chance(0.2) {
					// the application reads: with a large buffer, with a buffer of
					// exactly the announced size (as UDPSession.Read does), or a
					// smaller one (must be refused with -2)
					for r := 0; r < 64; r++ {
						ps := k.PeekSize()
						if ps < 0 {
							break
						}
						var n int
						switch rng.intn(3) {
						case 0:
							n = k.Recv(buf)
						case 1:
							n = k.Recv(make([]byte, ps))
						default:
							if ps > 0 {
								if n = k.Recv(make([]byte, rng.intn(ps))); n != -2 {
									rec.violationf(desc, "C05 Recv with a buffer smaller than PeekSize was not refused", "PeekSize %d, returned %d", ps, n)
									return
								}
								n = k.Recv(make([]byte, ps))
							} else {
								n = k.Recv(buf)
							}
						}
						if n < 0 {
							break
						}
					}
				}
				if rng.chance(0.05) {
					refTime = refTime.Add(-time.Duration(rng.between(1, 500)) * time.Millisecond)
					k.flush(IKCP_FLUSH_FULL)
				}
				if i == N-1 {
					h1 = heapAfterGC()
				}
			}
			h2 = heapAfterGC()
			rec.eval(int64(2 * N))
			rec.count("core_inputs", int64(2*N))
			if h2 > h1+8<<20 {
				rec.violationf(desc, "C05 heap keeps growing under hostile core input", "live heap %d MB after %d inputs, %d MB after %d", h1>>20, N, h2>>20, 2*N)
			}
			rec.maxCount("core_max_heap_growth_kb", int64(h2-min(h1, h2))>>10)
			rec.nontrivial(hashAny(desc))
			for _, rb := range []*RingBuffer[segment]{k.snd_queue, k.snd_buf, k.rcv_queue} {
				for seg := range rb.ForEach {
					k.recycleSegment(seg)
				}
			}
			for i := range k.rcv_buf.segments {
				k.recycleSegment(&k.rcv_buf.segments[i])
			}
		})
		rec.sample("core-input", 1, desc)
	}

	// ---- part 2: raw FEC decoder --------------------------------------------------
	for q := 0; q < env.pickN(160, 800); q++ {
		idx := caseIdx
		caseIdx++
		if !env.mine(idx) {
			continue
		}
		rng := rec.seed(uint64(idx), 51)
		d, p := rng.between(1, 12), rng.between(1, 5)
		if q%10 == 0 {
			tot := rng.between(20, 255)
			d = rng.between(1, tot-1)
			p = tot - d
		}
		desc := map[string]any{"part": "fec-decoder", "case": idx, "d": d, "p": p}
		rec.beginCase(desc)
		setCurrent(rec, desc)
		rec.guard(desc, func() {
			dec := newFECDecoder(d, p)
			enc := newFECEncoder(d, p, 0)
			kc := NewKCP(77, func([]byte, int) {})
			N := env.pickN(3000, 8000)
			var h1 uint64
			var genuine [][]byte
			for i := 0; i < 2*N; i++ {
				if len(genuine) == 0 || rng.chance(0.02) {
					g, _ := makeGroup(enc, sizeVector("kcp-like", d, rng, 300), rng, fecNoSkip)
					genuine = g.pkts
				}
				var in []byte
				switch rng.intn(6) {
				case 0:
					in = rng.bytes(pick(rng, []int{0, 1, 5, 6, 7, 8, 9, rng.intn(1501), 1500}))
				case 1, 2:
					// structured header, arbitrary rest
					in = make([]byte, pick(rng, []int{8, 9, 10, 32, rng.between(8, 1500), 1500}))
					rng.fill(in)
					seq := pick(rng, []uint32{0, 1, dec.paws - 1, dec.paws, dec.paws + 1, 1 << 31, 1<<31 - 1, 0xffffffff, rng.u32(), uint32(rng.intn(1000))})
					binary.LittleEndian.PutUint32(in, seq)
					binary.LittleEndian.PutUint16(in[4:], pick(rng, []uint16{0xf1, 0xf2, 0xf3, 0xf0, 0, 0xffff}))
					binary.LittleEndian.PutUint16(in[6:], pick(rng, []uint16{0, 1, 2, uint16(len(in) - 6), uint16(len(in) - 5), uint16(len(in) - 7), 65535}))
				default:
					// mutant of a genuine packet
					in = append([]byte(nil), genuine[rng.intn(len(genuine))]...)
					switch rng.intn(5) {
					case 0:
						in[rng.intn(len(in))] ^= byte(1 << rng.intn(8))
					case 1:
						in = in[:rng.intn(len(in)+1)]
					case 2:
						binary.LittleEndian.PutUint16(in[6:], pick(rng, []uint16{0, 1, 65535, uint16(len(in))}))
					case 3:
						binary.LittleEndian.PutUint32(in, binary.LittleEndian.Uint32(in)+uint32(rng.intn(5)*(d+p)))
					}
				}
				desc["last_input_len"] = len(in)
				recovered := dec.decode(fecPacket(in))
				for _, r := range recovered {
					// what the session does with a recovered shard
					if len(r) >= 2 {
						sz := binary.LittleEndian.Uint16(r)
						if int(sz) <= len(r) && sz >= 2 {
							kc.Input(r[2:sz], IKCP_PACKET_FEC, false)
						}
					}
					defaultBufferPool.Put(r)
				}
				if n := len(dec.shardSet); n > maxShardSets+2 {
					rec.violationf(desc, "C05 hostile input made the FEC decoder keep more shard sets than its bound", "%d shard sets after input #%d", n, i)
					return
				}
				for id, sh := range dec.shardSet {
					if sh.Len() > dec.shardSize {
						rec.violationf(desc, "C05 hostile input made an FEC shard set larger than a group", "set %d holds %d packets, group size %d", id, sh.Len(), dec.shardSize)
						return
					}
				}
				if msg := coreBounds(kc); msg != "" {
					rec.violationf(desc, "C05 hostile input broke a buffering bound of the core", "%s (via recovered FEC shards)", msg)
					return
				}
				if i == N-1 {
					h1 = heapAfterGC()
				}
			}
			h2 := heapAfterGC()
			rec.eval(int64(2 * N))
			rec.count("fec_decoder_inputs", int64(2*N))
			if h2 > h1+8<<20 {
				rec.violationf(desc, "C05 heap keeps growing under hostile FEC decoder input", "live heap %d MB after %d inputs, %d MB after %d", h1>>20, N, h2>>20, 2*N)
			}
			resetDecoder(dec, 0)
			rec.nontrivial(hashAny(desc))
		})
		rec.sample("fec-decoder", 1, desc)
	}
	sanReset()

	// ---- part 3: live sessions over simnet -------------------------------------------
	for q := 0; q < env.pickN(64, 400); q++ {
		idx := caseIdx
		caseIdx++
		if !env.mine(idx) {
			continue
		}
		rng := rec.seed(uint64(idx), 52)
		sc := genSessScenario(rng, idx, "session-injection")
		sc.Link.Cipher = cipherNames[q%len(cipherNames)]
		for _, c := range []*sessCfg{&sc.CfgC, &sc.CfgS} {
			if c.Mtu != 0 && c.Mtu < sc.Link.overhead()+IKCP_OVERHEAD+30 {
				c.Mtu = 0
			}
		}
		valid := q%2 == 1 // mutants that pass the integrity gate and may carry the right conv
		sc.Part = map[bool]string{false: "session-injection-garbage", true: "session-injection-valid-looking"}[valid]
		sc.BytesCS = max(sc.BytesCS, 20000)
		if sc.Net.Loss > 0.2 {
			sc.Net.Loss = 0.2
		}
		// the injector fires every 1..40 virtual ms for as long as the scenario
		// lasts: outages of half an hour add millions of injections (minutes of
		// real time under the race detector) and nothing else
		healAt := 0
		for i := range sc.Net.Outages {
			o := &sc.Net.Outages[i]
			if o[0] > 120000 {
				o[0] = 120000 + i*1000
			}
			if o[1] > o[0]+30000 {
				o[1] = o[0] + 30000
			}
			healAt = max(healAt, o[1]+100)
		}
		if len(sc.Net.Outages) > 0 {
			sc.Net.HealAt = max(min(sc.Net.HealAt, 200000), healAt)
		}
		sc.LimitMs = int64(sc.Net.HealAt) + 30*60*1000
		rec.beginCase(sc)
		synctest.Test(t, func(t *testing.T) { runC05Session(t, rec, &sc, rng, valid) })
		rec.eval(1)
		rec.nontrivial(hashAny(sc))
		rec.sample(sc.Part, 1, sessBrief(&sc))
	}

	// ---- part 4: real loopback UDP (recvmmsg path) -----------------------------------
	for q := 0; q < env.pickN(16, 64); q++ {
		idx := caseIdx
		caseIdx++
		if !env.mine(idx) {
			continue
		}
		rng := rec.seed(uint64(idx), 53)
		desc := map[string]any{"part": "real-udp", "case": idx, "cipher": cipherNames[q%len(cipherNames)], "fec": q%2 == 0}
		rec.beginCase(desc)
		setCurrent(rec, desc)
		runC05RealUDP(rec, desc, rng)
		rec.eval(1)
		rec.nontrivial(hashAny(desc))
		rec.sample("real-udp", 1, desc)
	}
}

// coreBounds checks the C04 occupancy limits and the ACK list bound.
func coreBounds(k *KCP) string {
	if n := k.rcv_queue.Len(); n > int(k.rcv_wnd) {
		return fmt.Sprintf("delivery queue %d > rcv_wnd %d", n, k.rcv_wnd)
	}
	if n := k.rcv_buf.Len(); n > int(k.rcv_wnd) {
		return fmt.Sprintf("out-of-order buffer %d > rcv_wnd %d", n, k.rcv_wnd)
	}
	if n := len(k.acklist); n > int(k.mtu/IKCP_OVERHEAD)+70000/IKCP_OVERHEAD {
		return fmt.Sprintf("%d pending acknowledgements", n)
	}
	if n := len(k.rcv_buf.marks); n != k.rcv_buf.Len() {
		return fmt.Sprintf("receive heap marks %d != entries %d", n, k.rcv_buf.Len())
	}
	return ""
}

// sealer builds datagrams that pass the scenario's integrity gate.
type sealer struct {
	spec *cipherSpec
	ref  *refCrypt
	gcm  cipher.AEAD
}

func newSealer(spec *cipherSpec, key []byte) *sealer {
	s := &sealer{spec: spec}
	if spec == nil {
		return s
	}
	if spec.kind == "aead" {
		blk, _ := aes.NewCipher(key)
		s.gcm, _ = cipher.NewGCM(blk)
	} else {
		s.ref, _ = newRefCrypt(*spec, key)
	}
	return s
}

func (s *sealer) seal(rng *vrng, payload []byte) []byte {
	switch {
	case s.spec == nil:
		return payload
	case s.gcm != nil:
		nonce := rng.bytes(12)
		return append(nonce, s.gcm.Seal(nil, nonce, payload, nil)...)
	default:
		pt := make([]byte, 20+len(payload))
		rng.fill(pt[:16])
		copy(pt[20:], payload)
		binary.LittleEndian.PutUint32(pt[16:], crc32.ChecksumIEEE(pt[20:]))
		return s.ref.encrypt(pt)
	}
}

func (s *sealer) open(data []byte) []byte {
	switch {
	case s.spec == nil:
		return data
	case s.gcm != nil:
		if len(data) < 28 {
			return nil
		}
		pt, err := s.gcm.Open(nil, data[:12], data[12:], nil)
		if err != nil {
			return nil
		}
		return pt
	default:
		if len(data) < 20 {
			return nil
		}
		return s.ref.decrypt(data)[20:]
	}
}

// hostilePayload: what goes inside the integrity envelope. withConv: may carry
// the session's conversation id (valid-looking) or never does (garbage).
func hostilePayload(rng *vrng, base []byte, conv uint32, fec bool, withConv bool, maxLen int) []byte {
	c := conv
	if !withConv {
		c = conv ^ 0x5a5a5a5a
	}
	var inner []byte
	switch rng.intn(4) {
	case 0:
		inner = rng.bytes(rng.intn(maxLen + 1))
		if !withConv && len(inner) >= 4 {
			binary.LittleEndian.PutUint32(inner, c) // make sure it cannot match by accident
		}
	case 1:
		inner = hostileSegs(rng, c, nil, maxLen)
		if !withConv {
			// hostileSegs randomises conv in 10% of the segments: re-pin the first
			if len(inner) >= 4 {
				binary.LittleEndian.PutUint32(inner, c)
			}
		}
	default:
		inner = hostileSegs(rng, c, nil, 1400)
	}
	if fec {
		hdr := make([]byte, 8)
		binary.LittleEndian.PutUint32(hdr, pick(rng, []uint32{0, 1, rng.u32(), 0xffffffff, 1 << 31, uint32(rng.intn(100))}))
		binary.LittleEndian.PutUint16(hdr[4:], pick(rng, []uint16{0xf1, 0xf1, 0xf2, 0xf3, 0xf0}))
		binary.LittleEndian.PutUint16(hdr[6:], pick(rng, []uint16{uint16(len(inner) + 2), 0, 1, 2, 65535, uint16(len(inner))}))
		if !withConv && binary.LittleEndian.Uint16(hdr[4:]) == 0xf2 {
			// parity carries no conversation id and could reconstruct anything:
			// not in the "cannot be valid" class
			binary.LittleEndian.PutUint16(hdr[4:], 0xf1)
		}
		inner = append(hdr, inner...)
	}
	if len(inner) > maxLen {
		inner = inner[:maxLen]
	}
	_ = base
	return inner
}

func runC05Session(t *testing.T, rec *vrec, sc *sessScenario, rng *vrng, valid bool) {
	var injected atomic.Int64
	stop := make(chan struct{})
	hooks := &sessHooks{
		post: func(w *sessWorld, client, server *UDPSession) {
			sl := newSealer(cipherByName(sc.Link.Cipher), w.key)
			fec := sc.Link.D > 0
			caddr := client.conn.LocalAddr()
			conv := client.GetConv()
			r := newRng(rng.u64())
			go func() {
				for {
					select {
					case <-stop:
						return
					case <-time.After(time.Duration(r.between(1, 40)) * time.Millisecond):
					}
					for b := 0; b < r.between(1, 20); b++ {
						maxLen := 1500 - sc.Link.overhead()
						// FEC-framed packets also reach sessions that have no FEC configured
						// (they create their decoder on demand)
						linkFEC := fec
						fec := fec || r.chance(0.3)
						if linkFEC {
							maxLen += 8 // the FEC header is part of the payload built here
						}
						var dg []byte
						passes := true // passes the integrity gate
						if valid {
							dg = sl.seal(r, hostilePayload(r, nil, conv, fec, true, maxLen))
						} else if sl.spec == nil {
							dg = hostilePayload(r, nil, conv, fec, false, 1500)
						} else if r.chance(0.5) {
							dg = r.bytes(r.intn(1501)) // fails the integrity gate
							passes = false
						} else {
							dg = sl.seal(r, hostilePayload(r, nil, conv, fec, false, maxLen))
						}
						if len(dg) > 1500 {
							dg = dg[:1500]
						}
						if r.chance(0.5) {
							// listener path. A datagram that passes the gate with another
							// conversation id and sn 0 from the peer's own address would
							// legitimately replace the session (C11): garbage of that
							// kind comes from a third address instead.
							from := caddr
							if !valid && (sl.spec == nil || passes) {
								from = w.addr(byte(150+r.intn(60)), 8000+r.intn(500))
							}
							w.hub.inject(from, w.laddr.String(), dg)
						} else {
							w.hub.inject(w.laddr, caddr.String(), dg) // dialled path, from the peer's address
						}
						injected.Add(1)
					}
					// structural bounds
					for _, s := range []*UDPSession{client, server} {
						// an accepted session receives its first datagrams under the default
						// windows: the window bounds apply once the configured ones are in
						// force (the monitor's "armed" state, as for C04)
						armed := true
						w.mu.Lock()
						for _, m := range w.mons {
							if m.s == s {
								armed = m.armed.Load()
							}
						}
						w.mu.Unlock()
						s.mu.Lock()
						msg := ""
						if armed {
							msg = coreBounds(s.kcp)
						}
						if dec := s.fecDecoder; dec != nil && msg == "" {
							if n := len(dec.shardSet); n > maxShardSets+2 {
								msg = fmt.Sprintf("%d FEC shard sets", n)
							}
						}
						s.mu.Unlock()
						if msg != "" {
							rec.violationf(sc, "C05 hostile datagram broke a buffering bound of a live session", "%s", msg)
						}
					}
					w.listener.sessionLock.RLock()
					ns := len(w.listener.sessions)
					w.listener.sessionLock.RUnlock()
					if ns > 1+acceptBacklog {
						rec.violationf(sc, "C05 hostile datagrams created more sessions than peers plus the accept backlog", "%d sessions", ns)
					}
				}
			}()
		},
		end: func(w *sessWorld, client, server *UDPSession) { close(stop) },
	}
	if valid {
		// valid-looking traffic may legitimately alter or kill the stream: only
		// survival and bounds are judged
		sc.BytesSC = 0
		sc.LimitMs = 20000
	}
	res := runSessScenario(t, rec, sc, rng, hooks)
	res.tally(rec)
	rec.count("session_datagrams_injected", injected.Load())
	if !valid && !res.completed {
		d := ""
		for _, x := range res.xs {
			d += x.progress() + " "
		}
		rec.violation("C05 garbage datagrams disturbed the legitimate transfer", d, sc)
	}
}

// runC05RealUDP: real sockets, real time, real scheduler; the listener reads
// through recvmmsg.
func runC05RealUDP(rec *vrec, desc map[string]any, rng *vrng) {
	spec := cipherByName(desc["cipher"].(string))
	var key []byte
	var blockL, blockC BlockCrypt
	if spec != nil {
		key = rng.bytes(spec.keyLen)
		blockL, _ = spec.mk(key)
		blockC, _ = spec.mk(key)
	}
	d, p := 0, 0
	if desc["fec"].(bool) {
		d, p = 3, 2
	}
	l, err := ListenWithOptions("127.0.0.1:0", blockL, d, p)
	if err != nil {
		rec.inconcl("real-udp: listen failed: " + err.Error())
		return
	}
	defer l.Close()
	c, err := DialWithOptions(l.Addr().String(), blockC, d, p)
	if err != nil {
		rec.inconcl("real-udp: dial failed: " + err.Error())
		return
	}
	defer c.Close()
	c.SetNoDelay(1, 10, 2, 1)
	done := make(chan struct{})
	accepted := make(chan struct{})
	const total = 200000
	stream := uint64(0xF000) + uint64(desc["case"].(int64))
	var srvRead atomic.Int64
	go func() {
		defer close(done)
		var s *UDPSession
		for {
			l.SetReadDeadline(time.Now().Add(20 * time.Second))
			x, err := l.AcceptKCP()
			if err != nil {
				return
			}
			if x.RemoteAddr().(*net.UDPAddr).Port == c.LocalAddr().(*net.UDPAddr).Port {
				s = x
				break
			}
			x.Close() // a session the attacker's datagrams created
		}
		close(accepted)
		defer s.Close()
		buf := make([]byte, 4096)
		var off uint64
		for off < total {
			s.SetReadDeadline(time.Now().Add(20 * time.Second))
			n, err := s.Read(buf)
			if err != nil {
				return
			}
			if k := checkContent(stream, off, buf[:n]); k >= 0 {
				rec.violationf(desc, "C05 garbage datagrams disturbed the legitimate transfer", "real UDP: %d bytes at offset %d differ at %d", n, off, k)
				return
			}
			off += uint64(n)
			srvRead.Store(int64(off))
		}
	}()
	// attacker socket
	atk, err := net.DialUDP("udp", nil, l.Addr().(*net.UDPAddr))
	if err != nil {
		rec.inconcl("real-udp: attacker socket: " + err.Error())
		return
	}
	defer atk.Close()
	atk2, _ := net.DialUDP("udp", nil, c.LocalAddr().(*net.UDPAddr))
	if atk2 != nil {
		defer atk2.Close()
	}
	sl := newSealer(spec, key)
	conv := c.GetConv()
	stopAtk := make(chan struct{})
	var sent atomic.Int64
	go func() {
		r := newRng(rng.u64())
		// the attack starts once the legitimate connection exists (a full accept
		// backlog refusing new peers is by design)
		select {
		case <-accepted:
		case <-stopAtk:
			return
		}
		for {
			select {
			case <-stopAtk:
				return
			default:
			}
			maxLen := 1400
			var dg []byte
			switch r.intn(3) {
			case 0:
				dg = r.bytes(r.intn(1473))
			case 1:
				dg = sl.seal(r, hostilePayload(r, nil, conv, d > 0 || r.chance(0.3), false, maxLen))
			default:
				// passes the gate, wrong conversation from a new address: may create
				// (bounded) sessions at the listener
				dg = sl.seal(r, hostilePayload(r, nil, conv, d > 0 || r.chance(0.3), false, maxLen))
			}
			if len(dg) > 1472 {
				dg = dg[:1472]
			}
			atk.Write(dg)
			if atk2 != nil && r.chance(0.3) {
				atk2.Write(dg)
			}
			sent.Add(1)
			if sent.Load()%64 == 0 {
				time.Sleep(time.Millisecond)
			}
		}
	}()
	buf := make([]byte, 1000)
	for off := 0; off < total; off += len(buf) {
		fillContent(stream, uint64(off), buf)
		c.SetWriteDeadline(time.Now().Add(20 * time.Second))
		if _, err := c.Write(buf); err != nil {
			break
		}
	}
	select {
	case <-done:
	case <-time.After(30 * time.Second):
	}
	close(stopAtk)
	rec.count("real_udp_datagrams_injected", sent.Load())
	rec.count("real_udp_runs", 1)
	if srvRead.Load() != total {
		// real time: a stalled machine is not a verdict
		rec.inconcl(fmt.Sprintf("real-udp case %d: transfer incomplete (%d/%d bytes) within the wall-clock watchdog", desc["case"], srvRead.Load(), total))
	}
	l.sessionLock.RLock()
	ns := len(l.sessions)
	l.sessionLock.RUnlock()
	if ns > 2+acceptBacklog {
		rec.violationf(desc, "C05 hostile datagrams created more sessions than peers plus the accept backlog", "%d sessions", ns)
	}
	// sessions created by the attacker's valid-looking datagrams: close them
	for {
		select {
		case s := <-l.chAccepts:
			s.Close()
			continue
		default:
		}
		break
	}
}
