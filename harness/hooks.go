//go:build verif

package kcp

// Handlers for the verif call-outs (H1 scheduler, H2 pool, H3 admission, H4
// yields) and the pool sanitizer.

import (
	"fmt"
	"math/rand/v2"
	"runtime"
	"strings"
	"sync"
	"sync/atomic"
	"time"
	"unsafe"
)

// ---------------------------------------------------------------------------
// current recorder (monitors running on library goroutines report here)

var curRec atomic.Pointer[vrec]
var curDesc atomic.Value // any

func setCurrent(rec *vrec, desc any) {
	curRec.Store(rec)
	curDesc.Store(&desc)
}

func reportGlobal(key, detail string) {
	rec := curRec.Load()
	if rec == nil {
		return
	}
	var desc any
	if d := curDesc.Load(); d != nil {
		desc = *(d.(*any))
	}
	rec.violation(key, detail, desc)
}

// ---------------------------------------------------------------------------
// H1: scheduler. In bubble mode session updates run on fake timers (the real
// TimedSched cannot run inside a bubble, see DESIGN.md); callbacks are counted.

var (
	schedBubbleMode atomic.Bool
	schedPending    atomic.Int64 // callbacks scheduled and not yet started
	schedScheduled  atomic.Int64
	schedExecuted   atomic.Int64
)

func h1SchedPut(ts *TimedSched, f *func(), deadline time.Time) bool {
	if ts != SystemTimedSched {
		return false
	}
	schedScheduled.Add(1)
	schedPending.Add(1)
	orig := *f
	wrapped := func() {
		schedPending.Add(-1)
		schedExecuted.Add(1)
		orig()
	}
	if schedBubbleMode.Load() {
		time.AfterFunc(time.Until(deadline), wrapped)
		return true
	}
	*f = wrapped
	return false
}

// ---------------------------------------------------------------------------
// H4: yields

var (
	yieldMode   atomic.Int32 // 0 off, 1 Gosched with probability, 2 random short sleep (real time only)
	yieldCounts [16]atomic.Int64
)

func h4Yield(point int) {
	if point >= 0 && point < len(yieldCounts) {
		yieldCounts[point].Add(1)
	}
	switch yieldMode.Load() {
	case 1:
		if rand.IntN(2) == 0 {
			runtime.Gosched()
		}
	case 2:
		switch rand.IntN(8) {
		case 0:
			time.Sleep(time.Duration(1+rand.IntN(200)) * time.Microsecond)
		case 1, 2:
			runtime.Gosched()
		}
	}
}

// ---------------------------------------------------------------------------
// H3: admission. Dispatches to the simcore monitor or the session monitor.

var sessKCPs sync.Map // *KCP -> *sessMon

func h3FlushAdmitted(k *KCP, newSegs int) {
	if e := simKCPs[k]; e != nil {
		simFlushAdmitted(k, newSegs)
		return
	}
	if m, ok := sessKCPs.Load(k); ok {
		m.(*sessMon).admitted(k, newSegs)
	}
}

var hooksOnce sync.Once

func installHooks() {
	hooksOnce.Do(func() {
		f1 := h1SchedPut
		verifSchedPutHook.Store(&f1)
		f2 := sanGet
		verifPoolGetHook.Store(&f2)
		f3 := sanPut
		verifPoolPutHook.Store(&f3)
		f4 := h3FlushAdmitted
		verifFlushAdmittedHook.Store(&f4)
		f5 := h4Yield
		verifYieldHook.Store(&f5)
		f6 := h5BatchConn
		verifBatchConnHook.Store(&f6)
		simHooksOnce.Store(true)
	})
}

// ---------------------------------------------------------------------------
// H2: pool sanitizer

const (
	sanOwned = iota + 1
	sanQuarantined
)

type sanEntry struct {
	state int8
	getPC [6]uintptr
	putPC [6]uintptr
	acqID uint64
	buf   []byte
}

type poolSanitizer struct {
	mu         sync.Mutex
	entries    map[*byte]*sanEntry
	quarantine []*sanEntry
	qhead      int
	acq        uint64

	gets, puts, adopted, verified atomic.Int64
	doubleRecycle, writeAfter     atomic.Int64
	maxOwned                      int
	owned                         int
}

var san = &poolSanitizer{entries: map[*byte]*sanEntry{}}
var sanEnabled atomic.Bool

const sanQuarantineSize = 4096

func poisonByte(i int) byte { return byte(i*31+7) ^ 0x5A }

func sanGet(bp *bufferPool) []byte {
	if !sanEnabled.Load() || bp != defaultBufferPool {
		return nil
	}
	buf := bp.xmitBuf.Get().([]byte)
	buf = buf[:cap(buf)]
	key := unsafe.SliceData(buf)
	// contents of a fresh buffer are unspecified: make reliance on them visible
	for i := range buf {
		buf[i] = 0xCD
	}
	san.gets.Add(1)
	san.mu.Lock()
	san.acq++
	e := san.entries[key]
	if e == nil {
		e = &sanEntry{}
		san.entries[key] = e
	}
	e.state = sanOwned
	e.acqID = san.acq
	e.buf = buf
	runtime.Callers(3, e.getPC[:])
	san.owned++
	if san.owned > san.maxOwned {
		san.maxOwned = san.owned
	}
	san.mu.Unlock()
	return buf
}

func sanPut(bp *bufferPool, buf []byte) bool {
	if !sanEnabled.Load() || bp != defaultBufferPool {
		return false
	}
	buf = buf[:cap(buf)]
	key := unsafe.SliceData(buf)
	san.puts.Add(1)
	var pcs [6]uintptr
	runtime.Callers(3, pcs[:])
	san.mu.Lock()
	e := san.entries[key]
	if e == nil {
		// a buffer the sanitizer does not know (forgotten at a reset, or made
		// elsewhere with the right capacity): adoption, as the real pool does
		e = &sanEntry{state: sanOwned, buf: buf}
		san.entries[key] = e
		san.adopted.Add(1)
		san.owned++
	}
	if e.state == sanQuarantined {
		first, second := frameNames(e.putPC[:]), frameNames(pcs[:])
		san.mu.Unlock()
		san.doubleRecycle.Add(1)
		reportGlobal(fmt.Sprintf("C15 pooled buffer recycled twice for one acquisition: %s then %s", topLib(first), topLib(second)),
			fmt.Sprintf("buffer acquired by:\n  %s\nfirst recycled by:\n  %s\nrecycled again by:\n  %s", strings.Join(frameNames(e.getPC[:]), "\n  "), strings.Join(first, "\n  "), strings.Join(second, "\n  ")))
		return true
	}
	e.state = sanQuarantined
	e.putPC = pcs
	san.owned--
	for i := range buf {
		buf[i] = poisonByte(i)
	}
	san.quarantine = append(san.quarantine, e)
	var release *sanEntry
	if len(san.quarantine)-san.qhead > sanQuarantineSize {
		release = san.quarantine[san.qhead]
		san.quarantine[san.qhead] = nil
		san.qhead++
		if san.qhead > 8192 {
			san.quarantine = append([]*sanEntry(nil), san.quarantine[san.qhead:]...)
			san.qhead = 0
		}
		delete(san.entries, unsafe.SliceData(release.buf))
	}
	san.mu.Unlock()
	if release != nil {
		sanRelease(bp, release)
	}
	return true
}

// sanRelease verifies the poison of a buffer leaving the quarantine and hands
// it to the real pool.
func sanRelease(bp *bufferPool, e *sanEntry) {
	san.verified.Add(1)
	for i, b := range e.buf {
		if b != poisonByte(i) {
			san.writeAfter.Add(1)
			put := frameNames(e.putPC[:])
			reportGlobal("C15 pooled buffer written after it was recycled (recycled by "+topLib(put)+")",
				fmt.Sprintf("byte %d of the recycled buffer changed from the poison value %#x to %#x while nobody owned it\nacquired by:\n  %s\nrecycled by:\n  %s", i, poisonByte(i), b, strings.Join(frameNames(e.getPC[:]), "\n  "), strings.Join(put, "\n  ")))
			break
		}
	}
	bp.xmitBuf.Put(e.buf)
}

// sanReset ends a scenario: the quarantine is drained (and verified) and
// buffers still owned by the (now dead) scenario are forgotten.
func sanReset() (stillOwned int) {
	san.mu.Lock()
	q := san.quarantine[san.qhead:]
	san.quarantine = nil
	san.qhead = 0
	stillOwned = san.owned
	san.owned = 0
	san.entries = map[*byte]*sanEntry{}
	san.mu.Unlock()
	for _, e := range q {
		if e != nil {
			sanRelease(defaultBufferPool, e)
		}
	}
	return
}

func sanTally(rec *vrec) {
	rec.count("pool_acquisitions_tracked", san.gets.Swap(0))
	rec.count("pool_recycles_tracked", san.puts.Swap(0))
	rec.count("pool_quarantine_poison_verifications", san.verified.Swap(0))
	rec.count("pool_buffers_adopted", san.adopted.Swap(0))
	rec.count("pool_double_recycle_reports", san.doubleRecycle.Swap(0))
	rec.count("pool_write_after_recycle_reports", san.writeAfter.Swap(0))
}

// isPoison reports whether b (at offset off of a pool buffer) looks like the
// sanitizer's poison: used to attribute bad payload bytes to use-after-recycle.
func isPoison(b []byte) bool {
	if len(b) < 8 {
		return false
	}
	for off := 0; off < 64; off++ {
		ok := true
		for i := range b[:8] {
			if b[i] != poisonByte(off+i) {
				ok = false
				break
			}
		}
		if ok {
			return true
		}
	}
	return false
}

func frameNames(pcs []uintptr) []string {
	var out []string
	n := 0
	for n < len(pcs) && pcs[n] != 0 {
		n++
	}
	if n == 0 {
		return []string{"(unknown)"}
	}
	fr := runtime.CallersFrames(pcs[:n])
	for {
		f, more := fr.Next()
		name := f.Function
		name = strings.TrimPrefix(name, "github.com/xtaci/kcp-go/v5.")
		if strings.Contains(f.File, "zzverif_") {
			name = "harness:" + name
		}
		out = append(out, name)
		if !more {
			break
		}
	}
	return out
}

// topLib returns the innermost library (non-harness) function of a stack.
func topLib(names []string) string {
	for _, n := range names {
		if strings.HasPrefix(n, "harness:") || strings.HasPrefix(n, "verif") || strings.HasPrefix(n, "runtime.") || strings.HasPrefix(n, "testing.") {
			continue
		}
		if strings.Contains(n, "bufferPool") {
			continue
		}
		// strip closure suffixes
		if i := strings.Index(n, ".func"); i > 0 {
			n = n[:i]
		}
		return n
	}
	return "(harness)"
}

// sanRefCheck: every pool buffer a session still references (queued segments,
// FEC shards) must be owned according to the sanitizer. A reference to a
// buffer that has been recycled is a use-after-recycle waiting to happen (the
// next ACK recycles it again, the next flush transmits somebody else's bytes).
func sanRefCheck(s *UDPSession) string {
	if !sanEnabled.Load() {
		return ""
	}
	s.mu.Lock()
	defer s.mu.Unlock()
	var bufs [][]byte
	var where []string
	k := s.kcp
	for seg := range k.snd_queue.ForEach {
		if seg.data != nil {
			bufs, where = append(bufs, seg.data), append(where, "send queue")
		}
	}
	for seg := range k.snd_buf.ForEach {
		if seg.data != nil {
			bufs, where = append(bufs, seg.data), append(where, "send buffer")
		}
	}
	for seg := range k.rcv_queue.ForEach {
		if seg.data != nil {
			bufs, where = append(bufs, seg.data), append(where, "delivery queue")
		}
	}
	for i := range k.rcv_buf.segments {
		if d := k.rcv_buf.segments[i].data; d != nil {
			bufs, where = append(bufs, d), append(where, "receive heap")
		}
	}
	if dec := s.fecDecoder; dec != nil {
		for _, sh := range dec.shardSet {
			for _, pkt := range sh.elements {
				bufs, where = append(bufs, pkt), append(where, "FEC shard set")
			}
		}
	}
	san.mu.Lock()
	defer san.mu.Unlock()
	for i, b := range bufs {
		if cap(b) != mtuLimit {
			continue
		}
		if e := san.entries[unsafe.SliceData(b[:cap(b)])]; e != nil && e.state == sanQuarantined {
			return fmt.Sprintf("a segment in the %s still references a buffer that was recycled by %s", where[i], topLib(frameNames(e.putPC[:])))
		}
	}
	return ""
}
