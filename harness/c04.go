//go:build verif

package kcp

// C04 — window discipline. The monitors live in simcore (output callback,
// admission hook H3, after-event invariants); this file supplies the traffic:
// cooperative peers at the window edge, stalled readers, and an adversary that
// forges sn/una/wnd and ignores the advertised window.

import (
	"testing"
)

func c04Scenario(rng *vrng, idx int64) coreScenario {
	sc := genCoreScenario(rng, idx, "window-edge")
	// small windows, readers that lag, so the edges are hit all the time
	w := []int{1, 2, 3, 4, 8, 16, 32}
	sc.CfgA.SndWnd, sc.CfgA.RcvWnd = pick(rng, w), pick(rng, w)
	sc.CfgB.SndWnd, sc.CfgB.RcvWnd = pick(rng, w), pick(rng, w)
	if rng.chance(0.5) {
		sc.CfgA.SndWnd = pick(rng, []int{64, 128, 256}) // sender window above the peer's receive window
	}
	sc.CfgA.NC, sc.CfgB.NC = rng.intn(2), rng.intn(2)
	if rng.chance(0.6) {
		sc.AppB.ReadEvery = pick(rng, []int{50, 200, 1000})
	}
	if rng.chance(0.5) {
		sc.AppB.PauseAfter = rng.between(1, 20000)
		sc.AppB.PauseMs = pick(rng, []int{500, 3000, 20000})
	}
	return sc
}

func TestVerifC04Core(t *testing.T) {
	rec := newRec(t, "C04")
	defer rec.finish(t)
	env := rec.env
	var caseIdx int64
	inBubble(t, func() {
		// ---- cooperative peers at the window edge ----------------------------
		for q := 0; q < env.pickN(640, 6000); q++ {
			idx := caseIdx
			caseIdx++
			if !env.mine(idx) {
				continue
			}
			rng := rec.seed(uint64(idx), 4)
			sc := c04Scenario(rng, idx)
			rec.beginCase(sc)
			rec.guard(sc, func() {
				res := runCoreScenario(rec, &sc, rng, nil)
				res.tally(rec)
				rec.eval(1)
				if !res.completed {
					rec.violation("C02 transfer did not complete within the virtual-time limit", res.sim.progressSummary(), sc)
				}
				s := res.sim
				edge := false
				for _, e := range s.ends {
					if e.zeroWndAdv > 0 || e.wBlocked > 0 || e.maxRcvQ >= e.cfg.RcvWnd {
						edge = true
					}
				}
				if edge {
					rec.nontrivial(hashAny(sc))
				}
			})
			rec.sample("window-edge", 2, scenarioBrief(&sc))
		}

		// ---- exhaustive fates around a warmed-up flight, congestion control on ------
		// Fates {deliver, drop, arrive just after the sender's RTO, arrive 3 RTOs
		// late} for K0 data datagrams and K1 acknowledgement datagrams in
		// mid-transfer: this is what puts a timeout loss and a fast or early
		// retransmission into one and the same flush.
		{
			K0, K1 := 4, env.pickN(3, 4)
			K := K0 + K1
			nvec := 1
			for i := 0; i < K; i++ {
				nvec *= 4
			}
			const block = 512
			for cfgi := 0; cfgi < env.pickN(4, 8); cfgi++ {
				for b0 := 0; b0 < nvec; b0 += block {
					idx := caseIdx
					caseIdx++
					if !env.mine(idx) {
						continue
					}
					resend, interval, delay := 1+cfgi%2, []int{10, 40}[(cfgi/2)%2], []int{5, 30}[cfgi/4]
					desc := map[string]any{"part": "mid-flight-fates-cwnd", "case": idx, "K_data": K0, "K_ack": K1, "resend": resend, "interval": interval, "delay": delay, "vectors": [2]int{b0, b0 + block}}
					rec.beginCase(desc)
					rec.guard(desc, func() {
						for v := b0; v < b0+block && v < nvec; v++ {
							fates := make([]int, K)
							x := v
							for i := range fates {
								fates[i] = x & 3
								x >>= 2
							}
							rng := rec.seed(uint64(cfgi), 45)
							frng := newRng(uint64(v), 46)
							cfg := coreCfg{SndWnd: 32, RcvWnd: 32, NoDelay: 1, Interval: interval, Resend: resend, NC: 0, Stream: false, Style: 0, Mtu: 200}
							sc := coreScenario{Case: idx, Part: "mid-flight-fates-cwnd", CfgA: cfg, CfgB: cfg,
								AppA: appScript{TotalBytes: 40 * cfg.mss(), ReadBufs: []int{65536}},
								AppB: appScript{ReadBufs: []int{65536}},
								Net:  netProfile{Name: "scripted", DelayMin: delay}, Writes: "mss-edge"}
							sc.LimitMs = 120000
							const skip = 8 // let the congestion window open first
							runCoreScenario(rec, &sc, rng, func(sim *simCore) {
								sim.fate = func(dir, nth int, now int64, data []byte) []int {
									g := nth - skip
									var f int
									switch {
									case g < 0:
										return []int{delay}
									case dir == 0 && g < K0:
										f = fates[g]
									case dir == 1 && g < K1:
										f = fates[K0+g]
									default:
										return []int{delay}
									}
									rto := int(sim.ends[0].k.rx_rto)
									switch f {
									case 1:
										return nil
									case 2:
										return []int{rto - delay + frng.intn(interval+2)}
									case 3:
										return []int{delay + 3*rto + 50}
									}
									return []int{delay}
								}
							})
							rec.eval(1)
							rec.count("cwnd_fate_vectors_run", 1)
						}
						rec.nontrivial(hashAny(desc))
					})
				}
			}
		}

		// ---- adversarial peer ----------------------------------------------------
		for q := 0; q < env.pickN(480, 5000); q++ {
			idx := caseIdx
			caseIdx++
			if !env.mine(idx) {
				continue
			}
			rng := rec.seed(uint64(idx), 44)
			sc := c04Scenario(rng, idx)
			sc.Part = "adversary"
			sc.AppA.Raw, sc.AppB.Raw = false, false
			sc.LimitMs = 60000
			rec.beginCase(sc)
			rec.guard(sc, func() {
				var forged, mangled int64
				res := runCoreScenario(rec, &sc, rng, func(s *simCore) {
					s.noContent = true
					arng := newRng(rng.u64())
					// in-flight alteration of genuine datagrams
					s.mangle = func(dir int, data []byte) []byte {
						if !arng.chance(0.15) {
							return data
						}
						mangled++
						segs, _ := parseKCP(data)
						var out []byte
						for _, sg := range segs {
							advMutate(arng, &sg, s.ends[1-dir].k)
							out = append(out, encodeSeg(sg)...)
						}
						return out
					}
					// plus forged segments out of nowhere, to either end
					n := arng.between(50, 400)
					for i := 0; i < n; i++ {
						at := int64(arng.between(0, 20000))
						end := arng.intn(2)
						s.at(at, func() {
							v := s.ends[end].k
							var pkt []byte
							for j := 0; j < arng.between(1, 6); j++ {
								sg := wseg{conv: v.conv, cmd: uint8(81 + arng.intn(4)), frg: uint8(arng.intn(4)), ts: currentMs() - uint32(arng.intn(500))}
								sg.sn = v.rcv_nxt + uint32(arng.intn(int(v.rcv_wnd)+3))
								sg.una = v.snd_una
								sg.wnd = uint16(arng.intn(64))
								if sg.cmd == IKCP_CMD_PUSH {
									sg.data = arng.bytes(arng.between(0, int(v.mss)))
								}
								advMutate(arng, &sg, v)
								pkt = append(pkt, encodeSeg(sg)...)
							}
							forged++
							s.input(s.ends[end], pkt)
						})
					}
				})
				res.tally(rec)
				rec.eval(1)
				rec.count("adversary_forged_datagrams", forged)
				rec.count("adversary_mangled_datagrams", mangled)
				if forged+mangled > 0 {
					rec.nontrivial(hashAny(sc))
				}
			})
			rec.sample("adversary", 2, scenarioBrief(&sc))
		}
	})
}

// advMutate forges header fields around the edges the victim v cares about.
func advMutate(rng *vrng, sg *wseg, v *KCP) {
	switch rng.intn(10) {
	case 0:
		sg.sn = v.rcv_nxt + v.rcv_wnd // first sn outside the window
	case 1:
		sg.sn = v.rcv_nxt + v.rcv_wnd - 1
	case 2:
		sg.sn = v.rcv_nxt + v.rcv_wnd + 1 + uint32(rng.intn(1000))
	case 3:
		sg.sn = v.rcv_nxt - 1 - uint32(rng.intn(5))
	case 4:
		sg.una = v.snd_nxt + uint32(rng.intn(3)) // acknowledges what was never sent
	case 5:
		sg.una = v.snd_una + uint32(rng.intn(int(v.snd_nxt-v.snd_una)+1))
	case 6:
		sg.wnd = pick(rng, []uint16{0, 1, 65535})
	case 7:
		sg.sn = rng.u32()
		sg.una = rng.u32()
	case 8:
		sg.ts = rng.u32()
	default:
		if sg.cmd == IKCP_CMD_ACK {
			sg.sn = v.snd_una + uint32(rng.intn(int(v.snd_nxt-v.snd_una)+2))
		}
	}
}

func TestVerifC04Sess(t *testing.T) {
	rec := newRec(t, "C04")
	defer rec.finish(t)
	var caseIdx int64 = 1 << 32
	c04SessionPart(t, rec, &caseIdx)
}
