//go:build verif

package kcp

// C03 — a stalled reader throttles the sender and the transfer resumes, even
// if every window probe / window update / acknowledgement datagram of a finite
// period is lost. Monitors: content oracle, C04 occupancy and admission (no
// new segment while the peer advertises zero window), bounded resumption.

import (
	"testing"
)

func TestVerifC03Core(t *testing.T) {
	rec := newRec(t, "C03")
	defer rec.finish(t)
	// "without any data being lost and without unbounded buffering"
	rec.alsoOwn = []string{"C01", "C04"}
	env := rec.env
	var caseIdx int64
	inBubble(t, func() {
		for q := 0; q < env.pickN(640, 8000); q++ {
			idx := caseIdx
			caseIdx++
			if !env.mine(idx) {
				continue
			}
			rng := rec.seed(uint64(idx), 3)
			sc := genCoreScenario(rng, idx, "stalled-reader")
			rw := pick(rng, []int{1, 2, 3, 4, 8, 32, 128})
			sc.CfgB.RcvWnd = rw
			sc.CfgA.SndWnd = pick(rng, []int{rw, 2 * rw, 32, 128})
			sc.CfgA.NC = rng.intn(2)
			sc.AppB.TotalBytes = 0
			if rng.chance(0.3) {
				sc.AppB.TotalBytes = rng.between(1, 20) * sc.CfgB.mss()
			}
			sc.AppB.ReadEvery = 0
			mss := sc.CfgA.mss()
			// enough data to fill the receiver's queue and the sender's window
			need := (rw + sc.CfgA.SndWnd + 10) * mss
			sc.AppA.TotalBytes = need + rng.between(0, 40)*mss
			if sc.AppA.Raw && !sc.CfgA.Stream {
				sc.AppA.Raw = false
			}
			sc.AppB.PauseAfter = rng.between(1, (rw+2)*mss)
			sc.AppB.PauseMs = pick(rng, []int{500, 2000, 10000, 60000, 300000, 1200000})
			// the network is clean except for the targeted losses
			sc.Net = netProfile{Name: "probe-loss", DelayMin: rng.between(1, 40), HealJit: rng.between(0, 5)}
			sc.Net.DelayMax = sc.Net.DelayMin + rng.between(0, 10)
			if rng.chance(0.3) {
				sc.Net.Loss = rng.float() * 0.1
			}
			lossLen := pick(rng, []int{0, 1000, 10000, 60000, 600000})
			lossKinds := rng.intn(3) // 0: WASK+WINS, 1: + pure ACK datagrams, 2: every datagram B->A
			sc.Net.HealAt = 1 << 30
			rec.beginCase(sc)
			rec.guard(sc, func() {
				var pauseStart, pauseEnd, lossEnd int64 = -1, -1, -1
				var targeted int64
				res := runCoreScenario(rec, &sc, rng, func(s *simCore) {
					base := s.fate
					s.fate = func(dir, nth int, now int64, data []byte) []int {
						b := s.ends[1]
						if pauseStart < 0 && b.rPaused {
							pauseStart = now
							pauseEnd = b.rPausedTill
							lossEnd = pauseEnd + int64(lossLen)
						}
						if pauseStart >= 0 && now < lossEnd {
							segs, _ := parseKCP(data)
							ctl, push, ack := false, false, false
							for _, sg := range segs {
								switch sg.cmd {
								case IKCP_CMD_WASK, IKCP_CMD_WINS:
									ctl = true
								case IKCP_CMD_PUSH:
									push = true
								case IKCP_CMD_ACK:
									ack = true
								}
							}
							drop := ctl
							if lossKinds >= 1 && ack && !push {
								drop = true
							}
							if lossKinds == 2 && dir == 1 {
								drop = true
							}
							if drop {
								targeted++
								return nil
							}
						}
						if lossEnd >= 0 && now >= lossEnd {
							return []int{sc.Net.DelayMin + int(now%int64(sc.Net.HealJit+1))}
						}
						return base(dir, nth, now, data)
					}
					// the bound starts when the targeted loss ends; until then only a
					// generous absolute cap applies
					s.deadline = 0
					s.onEvent = func(s *simCore) {
						if s.deadline == 0 && lossEnd >= 0 {
							segs := sc.AppA.TotalBytes/mss + sc.AppA.NWrites + 50
							s.deadline = lossEnd + c02Bound(&sc, lossEnd, segs) + 2*2*120000
						}
					}
				})
				rec.eval(1)
				res.tally(rec)
				rec.count("targeted_control_datagrams_dropped", targeted)
				s := res.sim
				if pauseStart < 0 {
					rec.count("scenarios_where_reader_never_paused", 1)
				}
				if !res.completed {
					rec.violationf(sc, "C03 transfer did not resume and complete after the reader resumed and the losses ended", "reader paused %d..%d ms, probe/update loss until %d ms, limit %d ms: %s", pauseStart, pauseEnd, lossEnd, s.deadline, s.progressSummary())
				}
				zero := s.ends[0].sawRmtZero && s.ends[1].zeroWndAdv > 0
				if zero {
					rec.count("scenarios_reaching_zero_window", 1)
					if s.ends[0].waskSent > 0 {
						rec.count("scenarios_with_window_probe_on_wire", 1)
					}
					rec.nontrivial(hashAny(sc))
				}
			})
			rec.sample("stalled-reader", 3, scenarioBrief(&sc))
		}
	})
}

func TestVerifC03Sess(t *testing.T) {
	rec := newRec(t, "C03")
	defer rec.finish(t)
	rec.alsoOwn = []string{"C01", "C04"}
	var caseIdx int64 = 1 << 32
	c03SessionPart(t, rec, &caseIdx)
}
