//go:build verif

package kcp

// C07 — FEC reconstructs exactly the missing packets from any k of n.
// Monitor: real fecEncoder -> (arrival script) -> real fecDecoder, with a
// model holding the group's original size-prefixed payloads. After every
// packet fed: everything emitted must be an original data packet of the
// group (exact length), and once dataShards distinct packets have arrived
// (group still recent) every data packet is received or reconstructed.

import (
	"fmt"
	"sync/atomic"
	"testing"
	"testing/synctest"
	"time"
)

type fecPos struct {
	name string
	base func(size uint32, paws uint32) uint32
}

func fecPositions() []fecPos {
	align := func(v, size uint32) uint32 { return v / size * size }
	return []fecPos{
		{"zero", func(s, p uint32) uint32 { return 0 }},
		{"second-group", func(s, p uint32) uint32 { return s }},
		{"mid", func(s, p uint32) uint32 { return align(1000003, s) }},
		{"below-2^31", func(s, p uint32) uint32 { return align(1<<31, s) - s }},
		{"across-2^31", func(s, p uint32) uint32 { return align(1<<31, s) }},
		{"above-2^31", func(s, p uint32) uint32 { return align(1<<31, s) + s }},
		{"last-before-wrap", func(s, p uint32) uint32 { return p - s }},
		{"third-last-before-wrap", func(s, p uint32) uint32 { return p - 3*s }},
	}
}

func TestVerifC07(t *testing.T) {
	rec := newRec(t, "C07")
	defer rec.finish(t)
	env := rec.env
	const maxPayload = mtuLimit - fecHeaderSizePlus2
	maxN := env.pickN(6, 7)
	positions := fecPositions()
	var caseIdx int64

	// ---- part 1: exhaustive arrival orders of small groups ------------------
	for d := 1; d < maxN; d++ {
		for p := 1; d+p <= maxN; p++ {
			for pi, pos := range positions {
				for si, sk := range sizeKinds {
					idx := caseIdx
					caseIdx++
					if !env.mine(idx) {
						continue
					}
					n := d + p
					desc := map[string]any{"part": "all-orders", "case": idx, "d": d, "p": p, "position": pos.name, "sizes": sk}
					rec.beginCase(desc)
					rec.guard(desc, func() {
						rng := rec.seed(uint64(idx), 7)
						enc := newFECEncoder(d, p, 0)
						dec := newFECDecoder(d, p)
						if enc == nil || dec == nil {
							rec.violation("C07 codec constructor returned nil", fmt.Sprint(d, p), desc)
							return
						}
						base := pos.base(uint32(n), enc.paws)
						enc.next = base
						sizes := sizeVector(sk, d, rng, maxPayload)
						desc["base"] = base
						desc["payload_sizes"] = sizes
						g, msg := makeGroup(enc, sizes, rng, fecNoSkip)
						if msg == "" && len(g.pkts) != n {
							msg = fmt.Sprintf("encoder produced %d packets for the group, want %d", len(g.pkts), n)
						}
						if msg != "" {
							rec.violation("C07 encoder: malformed group", msg, desc)
							return
						}
						var seqs, feeds, recovered int64
						bad := false
						run := func(order []int) bool {
							resetDecoder(dec, base)
							o := newGroupOracle(&g)
							for _, i := range order {
								feeds++
								if key, detail := o.feed(dec, i, true); key != "" {
									d2 := map[string]any{"arrival_order": append([]int(nil), order...)}
									for k, v := range desc {
										d2[k] = v
									}
									rec.violation(key, detail, d2)
									bad = true
									return false
								}
							}
							seqs++
							recovered += int64(o.emitted)
							return true
						}
						// every permutation of the full group: its prefixes are all
						// (subset, order) pairs
						permutations(n, func(pm []int) bool { return run(pm) })
						if bad {
							return
						}
						rec.count("arrival_sequences_all_orders", seqs)
						// duplicates: packet at position i repeated after position j
						dupSeqs := seqs
						limit := 400
						cnt := 0
						permutations(n, func(pm []int) bool {
							for i := 0; i < n; i++ {
								for j := i; j < n; j++ {
									if n > 4 && !rng.chance(0.05) {
										continue
									}
									order := make([]int, 0, n+1)
									order = append(order, pm[:j+1]...)
									order = append(order, pm[i])
									order = append(order, pm[j+1:]...)
									if !run(order) {
										return false
									}
									cnt++
								}
							}
							return n <= 4 || cnt < limit
						})
						rec.count("arrival_sequences_with_duplicates", seqs-dupSeqs)
						rec.count("packets_fed", feeds)
						rec.count("shards_emitted_and_checked", recovered)
						rec.eval(seqs)
						if recovered > 0 {
							rec.nontrivial(hashAny([]any{"orders", d, p, pi, si, sizes}))
						}
					})
					rec.sample("all-orders", 3, desc)
				}
			}
		}
	}
	rec.note("exhaustive", true)
	rec.note("exhaustive_dimension", fmt.Sprintf("all arrival orders (hence all subsets x orders as prefixes) of every group with d+p <= %d, at 8 positions of the id space and 7 payload-size patterns; duplicates exhaustive for d+p <= 4; larger groups and neighbour interleavings are sampled", maxN))

	// ---- part 2: interleaving with neighbouring groups, skipped parity --------
	nInter := env.pickN(600, 12000)
	for q := 0; q < nInter; q++ {
		idx := caseIdx
		caseIdx++
		if !env.mine(idx) {
			continue
		}
		rng := rec.seed(uint64(idx), 71)
		d := rng.between(1, 6)
		p := rng.between(1, 4)
		ngroups := rng.between(2, 7)
		pos := pick(rng, positions)
		desc := map[string]any{"part": "neighbours", "case": idx, "d": d, "p": p, "groups": ngroups, "position": pos.name}
		rec.beginCase(desc)
		rec.guard(desc, func() {
			n := d + p
			enc := newFECEncoder(d, p, 0)
			dec := newFECDecoder(d, p)
			base := pos.base(uint32(n), enc.paws)
			if pos.name != "zero" && pos.name != "second-group" && rng.chance(0.5) {
				// start so that the run of groups crosses the position
				back := uint32(rng.intn(ngroups)) * uint32(n)
				if base >= back {
					base -= back
				}
			}
			enc.next = base
			desc["base"] = base
			groups := make([]fecGroup, ngroups)
			skipped := make([]bool, ngroups)
			for k := range groups {
				rto := uint32(fecNoSkip)
				if rng.chance(0.2) {
					rto = 0 // sender skips parity for this group
					skipped[k] = true
				}
				g, msg := makeGroup(enc, sizeVector(pick(rng, sizeKinds), d, rng, maxPayload), rng, rto)
				if msg != "" {
					rec.violation("C07 encoder: malformed group", msg, desc)
					return
				}
				groups[k] = g
			}
			desc["parity_skipped"] = skipped
			// arrival script: every packet 0..2 times, globally shuffled with a
			// bounded displacement so that groups overlap
			type arr struct{ g, i int }
			var script []arr
			for k := range groups {
				for i := range groups[k].pkts {
					c := 1
					x := rng.intn(10)
					if x < 3 {
						c = 0
					} else if x == 9 {
						c = 2
					}
					for ; c > 0; c-- {
						script = append(script, arr{k, i})
					}
				}
			}
			disp := rng.between(1, 4*n)
			for i := range script {
				j := i + rng.intn(disp+1)
				if j < len(script) {
					script[i], script[j] = script[j], script[i]
				}
			}
			resetDecoder(dec, base)
			oracles := make([]*groupOracle, ngroups)
			for k := range groups {
				oracles[k] = newGroupOracle(&groups[k])
			}
			newest := 0
			emitted := 0
			for step, a := range script {
				if a.g > newest {
					newest = a.g
				}
				// the group is "among the few most recent" while no group more
				// than maxShardSets ahead of it has been seen. Across the id wrap
				// the unused ids [paws, 2^32) count as part of the distance, which
				// costs up to one group of slack: demand one group less there.
				few := maxShardSets
				if groups[newest].base < groups[a.g].base {
					few--
				}
				required := newest-a.g <= few
				// packets of a group that was already discarded once do not count
				if !required {
					oracles[a.g].seen = map[int]bool{}
				}
				if key, detail := oracles[a.g].feed(dec, a.i, required); key != "" {
					desc["script"] = fmt.Sprint(script)
					desc["failed_at_step"] = step
					rec.violation(key, detail, desc)
					return
				}
			}
			for _, o := range oracles {
				emitted += o.emitted
			}
			rec.eval(1)
			rec.count("neighbour_scripts", 1)
			rec.count("packets_fed", int64(len(script)))
			rec.count("shards_emitted_and_checked", int64(emitted))
			if len(dec.shardSet) > maxShardSets+2 {
				rec.violation("C07 decoder keeps more shard sets than its bound", fmt.Sprint(len(dec.shardSet)), desc)
			}
			if emitted > 0 {
				rec.nontrivial(hashAny(desc))
			}
		})
		rec.sample("neighbours", 2, desc)
	}

	// ---- part 3: large groups, sampled ---------------------------------------
	nBig := env.pickN(160, 3000)
	for q := 0; q < nBig; q++ {
		idx := caseIdx
		caseIdx++
		if !env.mine(idx) {
			continue
		}
		rng := rec.seed(uint64(idx), 72)
		total := rng.between(7, 255)
		if q%8 == 0 {
			total = 255
		}
		d := rng.between(1, total-1)
		p := total - d
		pos := pick(rng, positions)
		desc := map[string]any{"part": "large-groups", "case": idx, "d": d, "p": p, "position": pos.name}
		rec.beginCase(desc)
		rec.guard(desc, func() {
			enc := newFECEncoder(d, p, 0)
			dec := newFECDecoder(d, p)
			if enc == nil || dec == nil {
				rec.violation("C07 codec constructor returned nil", fmt.Sprint(d, p), desc)
				return
			}
			base := pos.base(uint32(total), enc.paws)
			enc.next = base
			g, msg := makeGroup(enc, sizeVector(pick(rng, sizeKinds), d, rng, maxPayload), rng, fecNoSkip)
			if msg != "" {
				rec.violation("C07 encoder: malformed group", msg, desc)
				return
			}
			emitted := 0
			for rep := 0; rep < 6; rep++ {
				resetDecoder(dec, base)
				o := newGroupOracle(&g)
				order := rng.perm(total)
				// drop a random number of packets, at most p so recovery is required
				drop := rng.intn(p + 1)
				if rep == 0 {
					drop = p
				}
				order = order[drop:]
				for _, i := range order {
					if key, detail := o.feed(dec, i, true); key != "" {
						desc["dropped"] = drop
						rec.violation(key, detail, desc)
						return
					}
					if rng.chance(0.05) { // duplicate
						if key, detail := o.feed(dec, i, true); key != "" {
							rec.violation(key, detail, desc)
							return
						}
					}
				}
				emitted += o.emitted
				rec.eval(1)
				rec.count("large_group_sequences", 1)
				rec.count("packets_fed", int64(len(order)))
			}
			rec.count("shards_emitted_and_checked", int64(emitted))
			if emitted > 0 {
				rec.nontrivial(hashAny(desc))
			}
		})
		rec.sample("large-groups", 2, desc)
	}

	// ---- part 4: what the decoder rebuilt reaches the stream (sessions) ----------
	// One FEC group of d messages, the datagram of one of them lost, the parity
	// delivered: every message must be readable one network delay later — long
	// before any retransmission timer (30 ms at least) could have repaired it.
	for q := 0; q < env.pickN(96, 960); q++ {
		idx := caseIdx
		caseIdx++
		if !env.mine(idx) {
			continue
		}
		rng := rec.seed(uint64(idx), 74)
		dp := pick(rng, [][2]int{{2, 1}, {3, 1}, {3, 2}, {5, 2}, {10, 1}, {10, 3}})
		d := dp[0]
		lost := rng.intn(d)
		sizes := make([]int, d)
		switch q % 4 {
		case 0: // all equal: the rebuilt packet has no padding at all
			for i := range sizes {
				sizes[i] = 200
			}
		case 1: // the lost one is the longest
			for i := range sizes {
				sizes[i] = rng.between(1, 300)
			}
			sizes[lost] = 301
		case 2: // the lost one is the shortest
			for i := range sizes {
				sizes[i] = rng.between(2, 300)
			}
			sizes[lost] = 1
		default:
			for i := range sizes {
				sizes[i] = rng.between(1, 1000)
			}
		}
		desc := map[string]any{"part": "session-recovery", "case": idx, "d": d, "p": dp[1], "lost": lost, "sizes": sizes, "cipher": pick(rng, []string{"", "aes-128", "salsa20", "aes-128-gcm"})}
		rec.beginCase(desc)
		synctest.Test(t, func(t *testing.T) {
			w, _, client, cconn, server := c13World(t, rec, desc, linkCfg{D: d, P: dp[1], Cipher: desc["cipher"].(string), UDPAddr: rng.chance(0.5)}, uint64(idx))
			defer yieldMode.Store(0)
			buf := make([]byte, 4096)
			// bring the client's encoder to a group boundary
			for i := 0; i < 2*d+2; i++ {
				client.mu.Lock()
				sc := client.fecEncoder.shardCount
				client.mu.Unlock()
				if sc == 0 {
					break
				}
				client.Write([]byte("filler"))
				time.Sleep(20 * time.Millisecond)
				synctest.Wait()
				server.SetReadDeadline(time.Now().Add(time.Millisecond))
				server.Read(buf)
			}
			time.Sleep(50 * time.Millisecond)
			synctest.Wait()
			var nth atomic.Int64
			claddr := cconn.addr.String()
			w.hub.setFate(func(from, to string, n int, now int64, data []byte) []int {
				if from == claddr {
					if int(nth.Add(1))-1 == lost {
						return nil
					}
				}
				return []int{c13Delay}
			})
			stream := uint64(0x7700) + uint64(idx)
			off := uint64(0)
			for _, sz := range sizes {
				b := make([]byte, sz)
				fillContent(stream, off, b)
				off += uint64(sz)
				client.Write(b)
			}
			time.Sleep((c13Delay + 2) * time.Millisecond)
			synctest.Wait()
			off = 0
			for i, sz := range sizes {
				server.SetReadDeadline(time.Now().Add(time.Millisecond))
				n, err := server.Read(buf)
				if err != nil {
					rec.violationf(desc, "C07 [session] a packet the decoder could rebuild did not reach the stream", "message %d of %d (%d bytes; message %d was lost on the wire, %d parity packets arrived) not readable %d ms after it was sent: %v; FECRecovered=%d", i, d, sz, lost, dp[1], c13Delay+2, err, DefaultSnmp.Copy().FECRecovered-w.snmp0.FECRecovered)
					break
				}
				if n != sz || checkContent(stream, off, buf[:n]) >= 0 {
					rec.violationf(desc, "C07 [session] rebuilt packet differs from the original", "message %d: %d bytes read, %d written", i, n, sz)
					break
				}
				off += uint64(sz)
			}
			rec.eval(1)
			rec.count("session_groups_with_a_lost_data_packet", 1)
			rec.nontrivial(hashAny(desc))
			w.shutdown(nil, true)
		})
		rec.sample("session-recovery", 1, desc)
	}
}
