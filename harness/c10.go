//go:build verif

package kcp

// C10 — no datagram exceeds the configured MTU; accepted MTUs are safe.
// Monitors: the wire monitor (len of every buffer handed to WriteTo <= MTU in
// force), the core output-callback monitor (0 < size <= core MTU), process
// survival; MTU values from an any-int generator, set before and during
// traffic.

import (
	"fmt"
	"testing"
	"testing/synctest"
	"time"
)

func anyMtu(rng *vrng, overhead int) int {
	switch rng.intn(14) {
	case 0:
		return -rng.between(1, 1<<20)
	case 1:
		return 0
	case 2:
		return rng.between(1, overhead+IKCP_OVERHEAD)
	case 3:
		return overhead + IKCP_OVERHEAD
	case 4:
		return overhead + IKCP_OVERHEAD + 1
	case 5:
		return overhead + IKCP_OVERHEAD + rng.between(2, 30)
	case 6:
		return 1500
	case 7:
		return 1501
	case 8:
		return rng.between(1501, 70000)
	case 9:
		return pick(rng, []int{65535, 65536, 1 << 20})
	case 10:
		return 1<<31 - 1
	default:
		return rng.between(50, 1500)
	}
}

func TestVerifC10(t *testing.T) {
	rec := newRec(t, "C10")
	defer rec.finish(t)
	env := rec.env
	var caseIdx int64

	// ---- core: any-int MTU before traffic, and changes during traffic ---------
	for q := 0; q < env.pickN(4000, 120000); q++ {
		idx := caseIdx
		caseIdx++
		if !env.mine(idx) {
			continue
		}
		rng := rec.seed(uint64(idx), 10)
		desc := map[string]any{"part": "core", "case": idx}
		rec.beginCase(desc)
		rec.guard(desc, func() {
			var outputs, oversize int64
			var k *KCP
			phase := "initial"
			k = NewKCP(7, func(buf []byte, size int) {
				outputs++
				if size <= 0 || size > int(k.mtu) || size > len(buf) {
					oversize++
					what := "C10 core handed its output callback an empty or over-MTU packet"
					if phase == "after-shrink" {
						what = "C10 core: packet larger than the MTU after SetMtu shrank it with segments queued"
					}
					rec.violationf(desc, what, "size %d, core mtu %d (phase %s)", size, k.mtu, phase)
				}
			})
			k.WndSize(rng.between(1, 64), 32)
			k.NoDelay(rng.intn(2), 10, rng.intn(3), 1)
			if rng.chance(0.5) {
				k.stream = 1
			}
			var steps []string
			doTraffic := func() {
				mss := int(k.mss)
				for i := 0; i < rng.between(1, 6); i++ {
					sz := pick(rng, []int{1, mss - 1, mss, mss + 1, 3 * mss, rng.between(1, 20*mss)})
					if sz < 1 {
						sz = 1
					}
					sz = min(sz, 200*mss)
					k.Send(make([]byte, sz))
				}
				k.flush(IKCP_FLUSH_FULL)
				// let retransmission timers expire (the clock is time.Since(refTime))
				refTime = refTime.Add(-time.Duration(rng.between(0, 1500)) * time.Millisecond)
				k.flush(IKCP_FLUSH_FULL)
			}
			for step := 0; step < rng.between(1, 4); step++ {
				m := anyMtu(rng, 0)
				prev := k.mtu
				queued := k.WaitSnd()
				var maxQueued int
				for seg := range k.snd_queue.ForEach {
					maxQueued = max(maxQueued, len(seg.data))
				}
				for seg := range k.snd_buf.ForEach {
					maxQueued = max(maxQueued, len(seg.data))
				}
				r := k.SetMtu(m)
				steps = append(steps, fmt.Sprintf("SetMtu(%d)=%d with %d segments queued (largest %d)", m, r, queued, maxQueued))
				desc["steps"] = steps
				if r == 0 {
					rec.count("core_mtu_accepted", 1)
					if int(k.mtu) != m {
						rec.violationf(desc, "C10 core: accepted MTU not in force", "SetMtu(%d)=0 but mtu=%d", m, k.mtu)
					}
					phase = "accepted"
					if queued > 0 && uint32(m) < prev {
						phase = "after-shrink"
						rec.count("core_mtu_shrunk_with_segments_queued", 1)
					}
				} else {
					rec.count("core_mtu_refused", 1)
					if k.mtu != prev {
						rec.violationf(desc, "C10 core: refused MTU changed the MTU in force", "SetMtu(%d)=%d, mtu %d -> %d", m, r, prev, k.mtu)
					}
				}
				func() {
					defer func() {
						if p := recover(); p != nil {
							key := "C10 core: panic in traffic after SetMtu accepted the value"
							if phase == "after-shrink" {
								key = "C10 core: panic in flush after SetMtu shrank the MTU with segments queued"
							}
							rec.violationf(desc, key, "%v; steps: %v", p, steps)
							panic(errStopCase)
						}
					}()
					doTraffic()
				}()
				// acknowledge part of what is outstanding so queues move
				if rng.chance(0.5) {
					ack := encodeSeg(wseg{conv: 7, cmd: IKCP_CMD_ACK, wnd: 32, sn: k.snd_una, una: k.snd_una + uint32(rng.intn(int(k.snd_nxt-k.snd_una)+1))})
					k.Input(ack, IKCP_PACKET_REGULAR, false)
				}
			}
			rec.eval(1)
			rec.count("core_outputs_checked", outputs)
			rec.nontrivial(hashAny(steps))
			for seg := range k.snd_queue.ForEach {
				k.recycleSegment(seg)
			}
			for seg := range k.snd_buf.ForEach {
				k.recycleSegment(seg)
			}
		})
		rec.sample("core", 3, desc)
	}

	// ---- core: staging-buffer boundary sweep -------------------------------------
	// flush packs ACKs, the two probe commands and data segments into one staging
	// buffer; every fill level around the MTU boundary is enumerated: pending
	// ACK count x probe flags x sizes of the next data segments.
	for _, m := range []int{25, 47, 48, 49, 71, 72, 73, 100, 120, 500, 1399, 1400, 1401, 1476, 1500} {
		idx := caseIdx
		caseIdx++
		if !env.mine(idx) {
			continue
		}
		desc := map[string]any{"part": "core-staging-sweep", "case": idx, "mtu": m}
		rec.beginCase(desc)
		rec.guard(desc, func() {
			rng := rec.seed(uint64(idx), 102)
			var flushes int64
			mss := m - IKCP_OVERHEAD
			for nack := 0; nack <= m/IKCP_OVERHEAD+3; nack++ {
				for flags := uint32(0); flags < 4; flags++ {
					for _, segs := range [][]int{nil, {1}, {mss}, {mss, 1}, {1, mss, mss / 2}, {mss / 2, mss/2 + 1, mss}} {
					  for stale := 0; stale < 4; stale++ {
						var k *KCP
						bad := ""
						k = NewKCP(9, func(buf []byte, size int) {
							if size <= 0 || size > int(k.mtu) || size > len(buf) {
								bad = fmt.Sprintf("size %d, core mtu %d", size, k.mtu)
							}
						})
						if k.SetMtu(m) != 0 {
							return
						}
						k.NoDelay(1, 10, 0, 1)
						// a hole at rcv_nxt: acknowledgements behind it are not filtered out,
						// acknowledgements of late duplicates (sn < rcv_nxt) are — except the
						// newest entry, which is always written. stale: 0 none, 1 the newest
						// entry, 2 every third and the newest, 3 every third but not the newest
						k.rcv_nxt = 1000
						for i := 0; i < nack; i++ {
							sn := uint32(1001 + i)
							last := i == nack-1
							if (stale == 1 && last) || (stale == 2 && (last || i%3 == 0)) || (stale == 3 && !last && i%3 == 0) {
								sn = uint32(10 + i)
							}
							k.acklist = append(k.acklist, ackItem{sn: sn, ts: rng.u32()})
						}
						k.probe = flags
						for _, sz := range segs {
							if sz >= 1 {
								k.Send(make([]byte, sz))
							}
						}
						k.flush(IKCP_FLUSH_FULL)
						flushes++
						if bad != "" {
							rec.violationf(desc, "C10 core handed its output callback an empty or over-MTU packet", "%s with %d pending ACKs (stale pattern %d), probe flags %d, new segments %v", bad, nack, stale, flags, segs)
							return
						}
						for seg := range k.snd_buf.ForEach {
							k.recycleSegment(seg)
						}
					  }
					}
				}
			}
			rec.eval(flushes)
			rec.count("core_staging_sweep_flushes", flushes)
			rec.nontrivial(hashAny(desc))
		})
		rec.sample("core-staging-sweep", 1, desc)
	}

	// ---- sessions: any-int MTU before traffic ------------------------------------
	for q := 0; q < env.pickN(128, 1600); q++ {
		idx := caseIdx
		caseIdx++
		if !env.mine(idx) {
			continue
		}
		rng := rec.seed(uint64(idx), 101)
		sc := genSessScenario(rng, idx, "session-mtu")
		sc.Link.Cipher = cipherNames[q%len(cipherNames)]
		if q%3 != 0 && sc.Link.D == 0 {
			sc.Link.D, sc.Link.P = pick(rng, []int{1, 2, 3, 10}), pick(rng, []int{1, 2, 3})
		}
		sc.CfgC.Mtu, sc.CfgS.Mtu = 0, 0 // set through the monitored path below
		sc.BytesCS = min(sc.BytesCS, 60000)
		sc.BytesSC = min(sc.BytesSC, 30000)
		during := q%2 == 1
		idle := q%8 == 7 // both writers go idle (> 500 ms: FEC parity is skipped), then the MTU shrinks
		mtuC, mtuS := anyMtu(rng, sc.Link.overhead()), anyMtu(rng, sc.Link.overhead())
		if idle {
			mtuC, mtuS = rng.between(200, 600), rng.between(200, 600)
		}
		for _, m := range []int{mtuC, mtuS} {
			if mss := min(m, 1500) - sc.Link.overhead() - IKCP_OVERHEAD; mss > 0 {
				sc.BytesCS = min(sc.BytesCS, 300*mss)
				sc.BytesSC = min(sc.BytesSC, 300*mss)
			}
		}
		sc.BytesCS = max(sc.BytesCS, 1)
		sc.NoMsgCheck = during
		if idle {
			sc.Link.D, sc.Link.P = pick(rng, []int{1, 1, 2, 3}), pick(rng, []int{1, 2})
			sc.Net = netProfile{Name: "clean", DelayMin: 5, DelayMax: 9, HealAt: 1}
			sc.BytesCS, sc.BytesSC = 40000, 40000
			sc.WSizes = []int{900, 1200, 700}
			sc.CfgC.SndWnd, sc.CfgC.RcvWnd, sc.CfgS.SndWnd, sc.CfgS.RcvWnd = 32, 32, 32, 32
			sc.WPauseAt = rng.between(5000, 30000)
			sc.WPauseMs = 3000
		}
		sc.Part = "session-mtu-before-traffic"
		if during {
			sc.Part = "session-mtu-during-traffic"
		}
		desc := map[string]any{"scenario": sessBrief(&sc), "case": idx, "mtu_client": mtuC, "mtu_server": mtuS, "during_traffic": during}
		rec.beginCase(desc)
		synctest.Test(t, func(t *testing.T) {
			setMtu := func(w *sessWorld, s *UDPSession, name string, m int) {
				var mon *sessMon
				w.mu.Lock()
				for _, x := range w.mons {
					if x.s == s {
						mon = x
					}
				}
				w.mu.Unlock()
				// "honoured from then on": from SetMtu's return. While the call is in
				// progress either value may be in force.
				var before int64
				if mon != nil {
					before = mon.mtuNow.Load()
					if int64(min(m, 1500)) > before {
						mon.mtuNow.Store(int64(min(m, 1500)))
					}
				}
				ok := s.SetMtu(m)
				if ok {
					rec.count("session_mtu_accepted", 1)
					if mon != nil {
						if int64(min(m, 1500)) < before {
							mon.flow.noteShrink(w.hub.nowMs())
							rec.count("session_mtu_shrunk", 1)
						}
						mon.mtuNow.Store(int64(min(m, 1500)))
					}
				} else {
					rec.count("session_mtu_refused", 1)
					if mon != nil {
						mon.mtuNow.Store(before)
					}
				}
				desc["setmtu_"+name] = ok
			}
			hooks := &sessHooks{}
			if !during {
				hooks.pre = func(w *sessWorld, client *UDPSession) {
					setMtu(w, client, "client", mtuC)
				}
				hooks.post = func(w *sessWorld, client, server *UDPSession) {
					// an accepted session has already answered the first datagram
					// under the default MTU: drain its pipeline before the switch
					w.hub.frozen.Store(true)
					synctest.Wait()
					setMtu(w, server, "server", mtuS)
					w.hub.frozen.Store(false)
				}
			} else {
				hooks.post = func(w *sessWorld, client, server *UDPSession) {
					if idle {
						// wait until both ends are idle and have been so for > 500 ms
						for i := 0; i < 2000; i++ {
							time.Sleep(10 * time.Millisecond)
							client.mu.Lock()
							a := client.kcp.WaitSnd()
							client.mu.Unlock()
							server.mu.Lock()
							b := server.kcp.WaitSnd()
							server.mu.Unlock()
							if a == 0 && b == 0 && w.hub.nSent.Load() > 20 {
								break
							}
						}
						time.Sleep(time.Duration(rng.between(600, 1500)) * time.Millisecond)
						synctest.Wait()
						setMtu(w, client, "client", mtuC)
						setMtu(w, server, "server", mtuS)
						rec.count("idle_then_shrink_scenarios", 1)
						return
					}
					// let traffic build up, cut the network so that queues hold data
					// cut for the old MTU, let the pipeline drain, then change
					time.Sleep(time.Duration(rng.between(20, 400)) * time.Millisecond)
					w.hub.frozen.Store(true)
					time.Sleep(time.Duration(rng.between(0, 300)) * time.Millisecond)
					synctest.Wait()
					setMtu(w, client, "client", mtuC)
					setMtu(w, server, "server", mtuS)
					w.hub.frozen.Store(false)
				}
			}
			// out-of-band packets of the maximum size must fit too
			stop := make(chan struct{})
			origPost := hooks.post
			hooks.post = func(w *sessWorld, client, server *UDPSession) {
				if origPost != nil {
					origPost(w, client, server)
				}
				if sc.Link.D > 0 {
					go func() {
						for {
							select {
							case <-stop:
								return
							case <-time.After(30 * time.Millisecond):
							}
							for _, s := range []*UDPSession{client, server} {
								n := s.GetOOBMaxSize()
								if n >= 0 {
									if s.SendOOB(make([]byte, n)) == nil {
										rec.count("oob_of_maximum_size_sent", 1)
									}
									if s.SendOOB(make([]byte, n+1)) == nil {
										rec.violationf(desc, "C19 out-of-band payload above GetOOBMaxSize accepted", "size %d", n+1)
									}
								}
							}
						}
					}()
				}
			}
			hooks.end = func(w *sessWorld, client, server *UDPSession) { close(stop) }
			res := runSessScenario(t, rec, &sc, rng, hooks)
			res.tally(rec)
			rec.eval(1)
			if !res.completed {
				d := ""
				for _, x := range res.xs {
					d += x.progress() + " "
				}
				rec.violation("C02 transfer did not complete within the virtual-time limit", d, desc)
			}
			rec.nontrivial(hashAny(desc))
		})
		rec.sample(sc.Part, 2, desc)
	}

	// ---- the recorded finding, deterministically ------------------------------------
	// An FEC group (3+2) receives its first data packet under MTU 1400; the session
	// goes idle, SetMtu(500) is accepted, two small messages complete the group:
	// its parity packets are as long as the longest data packet.
	if env.mine(caseIdx) {
		desc := map[string]any{"case": caseIdx, "part": "fec-group-straddles-an-accepted-shrink", "fec": [2]int{3, 2}, "mtu": [2]int{1400, 500}}
		rec.beginCase(desc)
		synctest.Test(t, func(t *testing.T) {
			w := newSessWorld(t, rec, desc, linkCfg{D: 3, P: 2, UDPAddr: true}, uint64(caseIdx), func(from, to string, nth int, now int64, data []byte) []int { return []int{5} })
			refTime = time.Now()
			l := w.listen()
			client, cconn := w.dial(2, 0x7710)
			client.SetNoDelay(1, 10, 0, 1)
			client.SetWriteDelay(false)
			mon := w.watch(client, "client", cconn.addr, w.laddr, sessCfg{}, 0)
			client.Write(make([]byte, 1300))
			l.SetReadDeadline(time.Now().Add(time.Minute))
			server, err := l.AcceptKCP()
			if err != nil {
				rec.inconcl("c10 known-finding case: accept failed: " + err.Error())
				w.shutdown(nil, false)
				return
			}
			buf := make([]byte, 4096)
			server.SetReadDeadline(time.Now().Add(time.Minute))
			server.Read(buf)
			time.Sleep(100 * time.Millisecond)
			synctest.Wait()
			if ok := client.SetMtu(500); ok {
				mon.flow.noteShrink(w.hub.nowMs())
				mon.mtuNow.Store(500)
				rec.count("session_mtu_shrunk", 1)
			}
			client.Write(make([]byte, 100))
			client.Write(make([]byte, 100))
			time.Sleep(100 * time.Millisecond)
			synctest.Wait()
			server.Read(buf)
			server.Read(buf)
			rec.eval(1)
			w.shutdown(nil, true)
		})
	}
	caseIdx++
}

type stopCase struct{}

var errStopCase = stopCase{}
