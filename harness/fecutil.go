//go:build verif

package kcp

// Helpers shared by the FEC monitors (C07, C12, C16): group generation through
// the real encoder, decoder reset, and the recovery oracle.

import (
	"bytes"
	"encoding/binary"
	"fmt"
	"time"
)

const fecNoSkip = 1 << 30 // "rto" that never lets the encoder skip parity

// fecGroup is one FEC group as it leaves the real encoder.
type fecGroup struct {
	d, p int
	base uint32   // sequence id of the first data packet
	pkts [][]byte // d data packets followed by the parity packets actually produced (0 or p)
	orig [][]byte // size-prefixed payload of each data packet (= pkt[6:])
}

// makeGroup pushes d payloads of the given sizes through enc and returns the
// resulting packets. rto is handed to encode (fecNoSkip: parity always made).
func makeGroup(enc *fecEncoder, sizes []int, rng *vrng, rto uint32) (fecGroup, string) {
	g := fecGroup{d: enc.dataShards, p: enc.parityShards, base: enc.next}
	if enc.shardCount != 0 {
		return g, "encoder not at a group boundary"
	}
	if enc.tsLatestPacket == 0 {
		// a running encoder: the previous data packet was sent just now (a fresh
		// encoder treats its very first packet as following a long pause)
		enc.tsLatestPacket = time.Now().UnixMilli()
	}
	for i := 0; i < g.d; i++ {
		b := make([]byte, fecHeaderSizePlus2+sizes[i])
		rng.fill(b[fecHeaderSizePlus2:])
		ps := enc.encode(b, rto)
		g.pkts = append(g.pkts, b)
		g.orig = append(g.orig, append([]byte(nil), b[fecHeaderSize:]...))
		if i < g.d-1 && len(ps) != 0 {
			return g, fmt.Sprintf("parity produced after %d of %d data packets", i+1, g.d)
		}
		for _, q := range ps {
			g.pkts = append(g.pkts, append([]byte(nil), q...))
		}
	}
	// header sanity of what the encoder produced (layout is C09's subject; this
	// only protects the oracle from a mis-built group)
	for i, pk := range g.pkts {
		f := fecPacket(pk)
		wantFlag := uint16(typeData)
		if i >= g.d {
			wantFlag = typeParity
		}
		if f.seqid() != (g.base+uint32(i))%enc.paws || f.flag() != wantFlag {
			return g, fmt.Sprintf("packet %d of the group has seqid %d flag %#x, want seqid %d flag %#x", i, f.seqid(), f.flag(), (g.base+uint32(i))%enc.paws, wantFlag)
		}
	}
	return g, ""
}

// resetDecoder puts dec into the state of a decoder that has been running and
// whose newest group is the one just before firstSeqid.
func resetDecoder(dec *fecDecoder, firstSeqid uint32) {
	for _, sh := range dec.shardSet {
		for _, pkt := range sh.elements {
			defaultBufferPool.Put(pkt)
		}
	}
	dec.shardSet = make(map[uint32]*shardHeap)
	dec.autoTune = autoTune{}
	dec.shouldTune = false
	gid := firstSeqid / uint32(dec.shardSize)
	if gid == 0 {
		dec.newestShardId = 0
	} else {
		dec.newestShardId = gid - 1
	}
}

// groupOracle follows the arrival of packets of one group at a decoder.
type groupOracle struct {
	g        *fecGroup
	seen     map[int]bool // index of packets fed (distinct)
	haveData map[int]bool // data packets received or reconstructed
	emitted  int
}

func newGroupOracle(g *fecGroup) *groupOracle {
	return &groupOracle{g: g, seen: map[int]bool{}, haveData: map[int]bool{}}
}

// feed gives packet i of the group to dec (a private copy, like the read loop's
// buffer) and checks what comes back. required says whether the completeness
// half of the property applies (group still recent). Returns a violation
// (key, detail) or "".
func (o *groupOracle) feed(dec *fecDecoder, i int, required bool) (string, string) {
	in := append([]byte(nil), o.g.pkts[i]...)
	rec := dec.decode(fecPacket(in))
	o.seen[i] = true
	if i < o.g.d {
		o.haveData[i] = true
	}
	key, detail := o.checkEmitted(rec)
	for _, r := range rec {
		defaultBufferPool.Put(r)
	}
	if key != "" {
		return key, detail
	}
	if required && len(o.seen) >= o.g.d {
		for k := 0; k < o.g.d; k++ {
			if !o.haveData[k] {
				return "C07 missing data packet not reconstructed although dataShards distinct packets arrived",
					fmt.Sprintf("d=%d p=%d base=%d: after %d distinct packets (last fed index %d) data packet %d is neither received nor reconstructed", o.g.d, o.g.p, o.g.base, len(o.seen), i, k)
			}
		}
	}
	return "", ""
}

func (o *groupOracle) checkEmitted(rec [][]byte) (string, string) {
	for _, r := range rec {
		o.emitted++
		if len(r) < 2 {
			return "C07 decoder emitted a shard shorter than its size field", fmt.Sprintf("len %d", len(r))
		}
		sz := int(binary.LittleEndian.Uint16(r))
		if sz < 2 || sz > len(r) {
			return "C07 decoder emitted a shard with an invalid size field", fmt.Sprintf("size field %d, shard length %d (d=%d p=%d base=%d)", sz, len(r), o.g.d, o.g.p, o.g.base)
		}
		match := -1
		for k := 0; k < o.g.d; k++ {
			if bytes.Equal(r[:sz], o.g.orig[k]) {
				match = k
				break
			}
		}
		if match < 0 {
			return "C07 decoder emitted something that is not an original data packet of the group",
				fmt.Sprintf("d=%d p=%d base=%d: emitted %d bytes (size field %d) matching no data packet of the group", o.g.d, o.g.p, o.g.base, len(r), sz)
		}
		o.haveData[match] = true
	}
	return "", ""
}

// sizeVector returns d payload sizes of the named pattern.
func sizeVector(kind string, d int, rng *vrng, maxPayload int) []int {
	s := make([]int, d)
	switch kind {
	case "equal":
		v := rng.between(1, maxPayload)
		for i := range s {
			s[i] = v
		}
	case "longest-first":
		for i := range s {
			s[i] = rng.between(1, maxPayload/2)
		}
		s[0] = maxPayload/2 + rng.between(1, maxPayload/2)
	case "longest-last":
		for i := range s {
			s[i] = rng.between(1, maxPayload/2)
		}
		s[d-1] = maxPayload/2 + rng.between(1, maxPayload/2)
	case "one-byte":
		for i := range s {
			s[i] = rng.between(1, maxPayload)
		}
		s[rng.intn(d)] = 1
	case "max":
		for i := range s {
			s[i] = rng.between(1, maxPayload)
		}
		s[rng.intn(d)] = maxPayload
	case "kcp-like":
		for i := range s {
			if rng.chance(0.5) {
				s[i] = 24 * rng.between(1, 4)
			} else {
				s[i] = 24 + rng.between(1, maxPayload-24)
			}
		}
	default: // random, including empty payloads now and then
		for i := range s {
			s[i] = rng.between(0, maxPayload)
		}
	}
	return s
}

var sizeKinds = []string{"equal", "longest-first", "longest-last", "one-byte", "max", "kcp-like", "random"}

// permutations calls fn with every permutation of 0..n-1 (Heap's algorithm);
// fn must not keep the slice. Stops when fn returns false.
func permutations(n int, fn func(p []int) bool) {
	p := make([]int, n)
	for i := range p {
		p[i] = i
	}
	c := make([]int, n)
	if !fn(p) {
		return
	}
	for i := 0; i < n; {
		if c[i] < i {
			if i%2 == 0 {
				p[0], p[i] = p[i], p[0]
			} else {
				p[c[i]], p[i] = p[i], p[c[i]]
			}
			if !fn(p) {
				return
			}
			c[i]++
			i = 0
		} else {
			c[i] = 0
			i++
		}
	}
}
