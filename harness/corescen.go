//go:build verif

package kcp

// Random scenarios for simcore, shared by C01/C02/C03/C04/C18.

import (
	"fmt"
	"testing"
	"testing/synctest"
)

type coreScenario struct {
	Case    int64      `json:"case"`
	Part    string     `json:"part"`
	CfgA    coreCfg    `json:"cfgA"`
	CfgB    coreCfg    `json:"cfgB"`
	AppA    appScript  `json:"appA"`
	AppB    appScript  `json:"appB"`
	Net     netProfile `json:"net"`
	Writes  string     `json:"write_pattern"`
	Clock   uint32     `json:"clock_offset"`
	SnA     uint32     `json:"sn_offset_a"`
	SnB     uint32     `json:"sn_offset_b"`
	LimitMs int64      `json:"limit_ms"`
}

type coreResult struct {
	completed  bool
	endMs      int64
	sim        *simCore
	nontrivial bool
}

// genCoreScenario draws a scenario. healAt > 0 makes the network fair from
// that virtual time on.
func genCoreScenario(rng *vrng, idx int64, part string) coreScenario {
	sc := coreScenario{Case: idx, Part: part}
	sc.CfgA = randomCoreCfg(rng)
	sc.CfgB = randomCoreCfg(rng)
	sc.CfgB.Stream = sc.CfgA.Stream
	sc.CfgB.Style = sc.CfgA.Style
	healAt := rng.between(500, 20000)
	sc.Net = randomProfile(rng, healAt)
	sc.Net.Recover = pick(rng, []int{0, 0, 0, 2, 3, 5})
	for _, o := range sc.Net.Outages {
		if o[1]+100 > sc.Net.HealAt {
			sc.Net.HealAt = o[1] + 100
		}
	}
	sc.Writes = pick(rng, []string{"mixed", "mixed", "tiny", "mss-edge", "large"})
	gen := func(own, peer coreCfg, oneWay bool) appScript {
		a := appScript{}
		mss := own.mss()
		segs := rng.between(10, 400)
		if sc.Writes == "tiny" {
			segs = rng.between(10, 120)
		}
		// keep very small windows affordable
		w := min(own.SndWnd, peer.RcvWnd)
		if w <= 3 {
			segs = min(segs, 120)
		}
		a.TotalBytes = segs * mss * rng.between(30, 100) / 100
		if sc.Writes == "tiny" {
			a.TotalBytes = segs * 6
		}
		if oneWay {
			a.TotalBytes = 0
		}
		a.Raw = rng.chance(0.4)
		// read buffers: from 1 byte to large
		switch rng.intn(4) {
		case 0:
			a.ReadBufs = []int{1, 2, 3, 7, 64, 1500, 65536}
		case 1:
			a.ReadBufs = []int{65536}
		case 2:
			a.ReadBufs = []int{rng.between(1, 100), rng.between(100, 3000), 65536}
		default:
			a.ReadBufs = []int{peer.mss(), peer.mss() - 1, peer.mss() + 1}
		}
		if rng.chance(0.25) {
			a.ReadEvery = pick(rng, []int{5, 50, 333})
		}
		return a
	}
	oneWay := rng.chance(0.3)
	sc.AppA = gen(sc.CfgA, sc.CfgB, false)
	sc.AppB = gen(sc.CfgB, sc.CfgA, oneWay)
	// now and then the application raises the MTU in mid-stream: what is queued
	// was cut for the old MSS and must still come out in order
	if rng.chance(0.12) {
		for _, pr := range []struct {
			c *coreCfg
			a *appScript
		}{{&sc.CfgA, &sc.AppA}, {&sc.CfgB, &sc.AppB}} {
			if m := pr.c.Mtu; m != 0 && m < 1400 {
				pr.a.MtuRaiseAfter = rng.between(1, 12)
				pr.a.MtuRaiseTo = rng.between(m+1, 1500)
			}
		}
	}
	sc.LimitMs = int64(sc.Net.HealAt) + 6*3600*1000
	return sc
}

// expandScenario fixes the write lists (deterministically from rng) and
// enforces the generator preconditions.
func expandScenario(sc *coreScenario, rng *vrng) {
	fix := func(a *appScript, own, peer coreCfg) {
		kind := sc.Writes
		a.expand(rng, own.mss(), kind)
		if a.Raw {
			// raw Send: at most 255 fragments; in message mode a message must fit
			// the peer's receive window (inherent to KCP, see DESIGN.md C01)
			maxFrag := 255
			if !own.Stream {
				maxFrag = min(maxFrag, peer.RcvWnd)
			}
			lim := maxFrag * own.mss()
			var ws []appWrite
			for _, w := range a.writesFull {
				for w.Size > lim {
					ws = append(ws, appWrite{w.Gap, lim})
					w.Size -= lim
					w.Gap = 0
				}
				ws = append(ws, w)
			}
			a.writesFull = ws
			a.NWrites = len(ws)
		}
	}
	fix(&sc.AppA, sc.CfgA, sc.CfgB)
	fix(&sc.AppB, sc.CfgB, sc.CfgA)
}

// runCoreScenario executes sc to completion or to its virtual-time limit.
// Must be called inside a bubble.
func runCoreScenario(rec *vrec, sc *coreScenario, rng *vrng, setup func(s *simCore)) coreResult {
	installSimHooks()
	expandScenario(sc, rng)
	netRng := newRng(rng.u64())
	s := newSimCore(rec, sc, sc.CfgA, sc.CfgB, sc.AppA, sc.AppB, sc.Net.fate(netRng), sc.Clock, sc.SnA, sc.SnB)
	defer s.close()
	s.deadline = sc.LimitMs
	s.recoverEvery = sc.Net.Recover
	if setup != nil {
		setup(s)
	}
	s.start()
	ok := s.run(s.complete)
	res := coreResult{completed: ok && s.complete(), endMs: s.now, sim: s}
	if s.budgetExhausted {
		// inconclusive (already recorded), never a violation of bounded progress
		res.completed = true
	}
	res.nontrivial = s.drops > 0 && (s.dups > 0 || sc.Net.DelayMax-sc.Net.DelayMin > 20) && s.ends[0].rReads+s.ends[1].rReads >= 10
	return res
}

func (r coreResult) tally(rec *vrec) {
	s := r.sim
	rec.count("core_sims", 1)
	rec.count("core_events", s.events)
	rec.count("core_datagrams_sent", int64(s.gsent))
	rec.count("core_datagrams_dropped", s.drops)
	rec.count("core_datagrams_delivered_late_as_fec_recovered", s.recovered)
	rec.count("core_datagram_extra_copies", s.dups)
	for _, e := range s.ends {
		rec.count("core_recv_calls_checked", e.rReads)
		rec.count("core_bytes_read_checked", int64(e.rOff))
		rec.count("core_push_segments_on_wire", e.pushSegs)
		rec.count("core_segments_admitted_checked_at_H3", e.admitted)
		rec.count("core_zero_window_advertisements", e.zeroWndAdv)
		rec.count("core_wask_sent", e.waskSent)
		rec.count("core_wins_sent", e.winsSent)
		rec.count("core_writer_found_window_full", e.wBlocked)
		rec.maxCount("core_max_transmissions_of_one_sn", int64(e.maxTx))
		rec.maxCount("core_max_delivery_queue", int64(e.maxRcvQ))
		rec.maxCount("core_max_out_of_order_buffer", int64(e.maxRcvBuf))
		rec.maxCount("core_max_outstanding", int64(e.maxInflight))
	}
	if r.completed {
		rec.count("core_sims_completed", 1)
	}
}

// inBubble runs fn inside one synctest bubble.
func inBubble(t *testing.T, fn func()) {
	synctest.Test(t, func(t *testing.T) { fn() })
}

func scenarioBrief(sc *coreScenario) map[string]any {
	return map[string]any{
		"case": sc.Case, "part": sc.Part, "net": sc.Net.Name, "loss": fmt.Sprintf("%.2f", sc.Net.Loss),
		"stream": sc.CfgA.Stream, "style": sc.CfgA.Style, "wndA": [2]int{sc.CfgA.SndWnd, sc.CfgA.RcvWnd}, "wndB": [2]int{sc.CfgB.SndWnd, sc.CfgB.RcvWnd},
		"mtuA": sc.CfgA.Mtu, "mtuB": sc.CfgB.Mtu, "bytesA": sc.AppA.TotalBytes, "bytesB": sc.AppB.TotalBytes, "rawA": sc.AppA.Raw, "writes": sc.Writes,
	}
}
