//go:build verif

package kcp

// C18 — no retransmission on a clean path; RTO stays within its bounds.
// Clean-path generator enforces the property's precondition
// (2D + peer's acknowledgement delay < minimum RTO, FIFO, no loss, reader keeps
// up, receive window >= min(sender window, 32)); the wire monitor counts
// transmissions per sn. The RTO bound is checked after every event of every
// simulation and here under forged acknowledgement timestamps.

import (
	"sync/atomic"
	"testing"
)

func TestVerifC18Core(t *testing.T) {
	rec := newRec(t, "C18")
	defer rec.finish(t)
	env := rec.env
	var caseIdx int64
	inBubble(t, func() {
		// ---- clean path ---------------------------------------------------------
		for q := 0; q < env.pickN(800, 24000); q++ {
			idx := caseIdx
			caseIdx++
			if !env.mine(idx) {
				continue
			}
			rng := rec.seed(uint64(idx), 18)
			sc := genCoreScenario(rng, idx, "clean-path")
			// each end's minimum RTO must exceed 2D + the *peer's* flush interval
			for {
				sc.CfgA.NoDelay, sc.CfgB.NoDelay = rng.intn(2), rng.intn(2)
				sc.CfgA.Interval = pick(rng, []int{10, 20, 40, 100})
				sc.CfgB.Interval = pick(rng, []int{10, 20, 40, 100})
				minA, minB := 100, 100
				if sc.CfgA.NoDelay == 1 {
					minA = 30
				}
				if sc.CfgB.NoDelay == 1 {
					minB = 30
				}
				room := min(minA-sc.CfgB.Interval, minB-sc.CfgA.Interval) - 2
				if room < 0 {
					continue
				}
				d := rng.between(0, room/2)
				sc.Net = netProfile{Name: "clean-constant-delay", DelayMin: d, DelayMax: d, HealAt: 0}
				break
			}
			// window precondition
			for _, pr := range [][2]*coreCfg{{&sc.CfgA, &sc.CfgB}, {&sc.CfgB, &sc.CfgA}} {
				snd, rcv := pr[0], pr[1]
				need := min(snd.SndWnd, 32)
				if rcv.RcvWnd < need {
					rcv.RcvWnd = need
				}
			}
			sc.AppA.ReadEvery, sc.AppB.ReadEvery = 0, 0
			sc.AppA.PauseAfter, sc.AppB.PauseAfter = 0, 0
			if q%8 == 0 && sc.Writes != "tiny" {
				sc.AppA.TotalBytes = rng.between(200, 1500) * sc.CfgA.mss()
			}
			sc.LimitMs = 3600 * 1000 * 10
			// the path is clean wherever the clock and the sequence numbers are
			switch rng.intn(4) {
			case 0:
				sc.Clock = uint32(0) - uint32(rng.between(0, 20000))
				sc.SnA, sc.SnB = uint32(0)-uint32(rng.between(0, 300)), uint32(0)-uint32(rng.between(0, 300))
			case 1:
				sc.Clock = uint32(1<<31) - uint32(rng.between(0, 20000))
				sc.SnA, sc.SnB = uint32(1<<31)-uint32(rng.between(0, 300)), uint32(1<<31)-uint32(rng.between(0, 300))
			case 2:
				sc.Clock, sc.SnA, sc.SnB = rng.u32(), rng.u32(), rng.u32()
			}
			rec.beginCase(sc)
			rec.guard(sc, func() {
				before := atomic.LoadUint64(&DefaultSnmp.RetransSegs)
				res := runCoreScenario(rec, &sc, rng, nil)
				retr := atomic.LoadUint64(&DefaultSnmp.RetransSegs) - before
				rec.eval(1)
				res.tally(rec)
				s := res.sim
				var segs int64
				for _, e := range s.ends {
					for sn, c := range e.txCount {
						segs++
						if c != 1 {
							rec.violationf(sc, "C18 data segment transmitted more than once on a clean path", "end %s: sn %d appeared %d times on the wire (one-way delay %d ms, intervals %d/%d, nodelay %d/%d, resend %d, rto now %d)", e.name, sn, c, sc.Net.DelayMin, sc.CfgA.Interval, sc.CfgB.Interval, sc.CfgA.NoDelay, sc.CfgB.NoDelay, e.cfg.Resend, e.k.rx_rto)
							break
						}
					}
				}
				if retr != 0 {
					rec.violationf(sc, "C18 retransmission counters moved on a clean path", "RetransSegs +%d", retr)
				}
				if !res.completed {
					rec.violation("C02 transfer did not complete within the virtual-time limit", s.progressSummary(), sc)
				}
				rec.count("clean_path_segments_counted", segs)
				if segs >= 20 {
					rec.nontrivial(hashAny(sc))
				}
			})
			rec.sample("clean-path", 3, scenarioBrief(&sc))
		}

		// ---- observer sanity: a lossy path does show retransmissions ------------
		if env.mine(caseIdx) {
			idx := caseIdx
			rng := rec.seed(uint64(idx), 181)
			sc := genCoreScenario(rng, idx, "observer-sanity")
			sc.Net = netProfile{Name: "heavy-loss", Loss: 0.3, DelayMin: 10, DelayMax: 30, HealAt: 30000}
			rec.beginCase(sc)
			res := runCoreScenario(rec, &sc, rng, nil)
			if res.sim.ends[0].maxTx > 1 || res.sim.ends[1].maxTx > 1 {
				rec.count("observer_sanity_retransmissions_seen", 1)
			} else {
				rec.inconcl("the wire monitor saw no retransmission on a 30% loss path")
			}
		}
		caseIdx++

		// ---- RTO bound under forged acknowledgements ------------------------------
		for q := 0; q < env.pickN(480, 16000); q++ {
			idx := caseIdx
			caseIdx++
			if !env.mine(idx) {
				continue
			}
			rng := rec.seed(uint64(idx), 182)
			sc := genCoreScenario(rng, idx, "forged-acks")
			sc.LimitMs = 40000
			sc.Clock = pick(rng, []uint32{0, 0, 1 << 31, 0xffffffff - 5000, rng.u32()})
			rec.beginCase(sc)
			rec.guard(sc, func() {
				var forged int64
				res := runCoreScenario(rec, &sc, rng, func(s *simCore) {
					s.noContent = true
					arng := newRng(rng.u64())
					n := arng.between(100, 600)
					for i := 0; i < n; i++ {
						at := int64(arng.between(0, 30000))
						end := arng.intn(2)
						s.at(at, func() {
							v := s.ends[end].k
							var pkt []byte
							for j := 0; j < arng.between(1, 8); j++ {
								sg := wseg{conv: v.conv, cmd: IKCP_CMD_ACK, una: v.snd_una, wnd: 32}
								sg.sn = v.snd_una + uint32(arng.intn(int(v.snd_nxt-v.snd_una)+1))
								now := currentMs()
								switch arng.intn(8) {
								case 0:
									sg.ts = now
								case 1:
									sg.ts = now + uint32(arng.intn(100000)) // future
								case 2:
									sg.ts = now - uint32(arng.intn(1<<30)) // far past
								case 3:
									sg.ts = now - (1 << 31) + uint32(arng.intn(3)) - 1
								case 4:
									sg.ts = 0
								case 5:
									sg.ts = 0xffffffff
								case 6:
									sg.ts = now - uint32(arng.intn(70000))
								default:
									sg.ts = arng.u32()
								}
								pkt = append(pkt, encodeSeg(sg)...)
							}
							forged++
							s.input(s.ends[end], pkt)
						})
					}
				})
				rec.eval(1)
				res.tally(rec)
				rec.count("forged_ack_datagrams", forged)
				rec.count("rto_bound_evaluations", res.sim.events)
				rec.nontrivial(hashAny(sc))
			})
			rec.sample("forged-acks", 2, scenarioBrief(&sc))
		}
	})
}

func TestVerifC18Sess(t *testing.T) {
	rec := newRec(t, "C18")
	defer rec.finish(t)
	var caseIdx int64 = 1 << 32
	c18SessionPart(t, rec, &caseIdx)
}
