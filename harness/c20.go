//go:build verif

package kcp

// C20 — the ring buffer is a FIFO queue for every operation sequence.
// Monitor: a slice-backed queue model run in lock-step with the real
// RingBuffer; after every operation all observable results and the internal
// slot hygiene (zero value outside the live range) are compared.

import (
	"fmt"
	"testing"
)

type rbOps[T any] struct {
	mk     func(id int) T
	eq     func(a, b T) bool
	isZero func(a T) bool
	mut    func(p *T, id int)
	str    func(a T) string
}

type rbState[T any] struct {
	r     *RingBuffer[T]
	model []T
	next  int // next fresh element id
}

func (s *rbState[T]) clone() *rbState[T] {
	c := &rbState[T]{next: s.next}
	c.r = &RingBuffer[T]{head: s.r.head, tail: s.r.tail, elements: append([]T(nil), s.r.elements...)}
	c.model = append([]T(nil), s.model...)
	return c
}

const (
	rbPush = iota
	rbPop
	rbPeek
	rbDiscard0
	rbDiscard1
	rbDiscard2
	rbDiscardLenM1
	rbDiscardLen
	rbDiscardLenP1
	rbClear
	rbEachFull
	rbEachStop
	rbEachMut
	rbRevFull
	rbRevStop
	rbRevMut
	rbNumOps
)

var rbOpNames = [...]string{"Push", "Pop", "Peek", "Discard(0)", "Discard(1)", "Discard(2)", "Discard(len-1)", "Discard(len)", "Discard(len+1)", "Clear", "ForEach", "ForEach/stop", "ForEach/mutate", "ForEachReverse", "ForEachReverse/stop", "ForEachReverse/mutate"}

// apply runs op on both the ring and the model and returns a non-empty
// description on the first disagreement.
func (s *rbState[T]) apply(o *rbOps[T], op int, stopAfter int) string {
	r := s.r
	switch op {
	case rbPush:
		v := o.mk(s.next)
		s.next++
		r.Push(v)
		s.model = append(s.model, v)
	case rbPop:
		v, ok := r.Pop()
		if len(s.model) == 0 {
			if ok || !o.isZero(v) {
				return fmt.Sprintf("Pop on empty returned (%s,%v)", o.str(v), ok)
			}
		} else {
			if !ok || !o.eq(v, s.model[0]) {
				return fmt.Sprintf("Pop returned (%s,%v), model head %s", o.str(v), ok, o.str(s.model[0]))
			}
			s.model = s.model[1:]
		}
	case rbPeek:
		p, ok := r.Peek()
		if len(s.model) == 0 {
			if ok || p != nil {
				return "Peek on empty returned a value"
			}
		} else {
			if !ok || p == nil || !o.eq(*p, s.model[0]) {
				return fmt.Sprintf("Peek returned ok=%v, model head %s", ok, o.str(s.model[0]))
			}
		}
	case rbDiscard0, rbDiscard1, rbDiscard2, rbDiscardLenM1, rbDiscardLen, rbDiscardLenP1:
		var n int
		switch op {
		case rbDiscard0:
			n = 0
		case rbDiscard1:
			n = 1
		case rbDiscard2:
			n = 2
		case rbDiscardLenM1:
			n = len(s.model) - 1
			if n < 0 {
				n = 0
			}
		case rbDiscardLen:
			n = len(s.model)
		case rbDiscardLenP1:
			n = len(s.model) + 1
		}
		got := r.Discard(n)
		want := min(n, len(s.model))
		if got != want {
			return fmt.Sprintf("Discard(%d) returned %d, want %d", n, got, want)
		}
		s.model = s.model[want:]
	case rbClear:
		r.Clear()
		s.model = s.model[:0]
	case rbEachFull, rbEachStop, rbEachMut, rbRevFull, rbRevStop, rbRevMut:
		rev := op >= rbRevFull
		kind := op
		if rev {
			kind -= rbRevFull - rbEachFull
		}
		n := len(s.model)
		visited := 0
		bad := ""
		fn := func(p *T) bool {
			idx := visited
			if rev {
				idx = n - 1 - visited
			}
			if idx < 0 || idx >= n {
				bad = fmt.Sprintf("iterator visited more than %d elements", n)
				return false
			}
			if !o.eq(*p, s.model[idx]) {
				bad = fmt.Sprintf("iterator element %d is %s, model has %s", idx, o.str(*p), o.str(s.model[idx]))
				return false
			}
			if kind == rbEachMut {
				o.mut(p, s.next)
				o.mut(&s.model[idx], s.next)
				s.next++
			}
			visited++
			if kind == rbEachStop && visited >= stopAfter {
				return false
			}
			return true
		}
		if rev {
			r.ForEachReverse(fn)
		} else {
			r.ForEach(fn)
		}
		if bad != "" {
			return bad
		}
		want := n
		if kind == rbEachStop && stopAfter < n {
			want = stopAfter
		}
		if visited != want {
			return fmt.Sprintf("iterator visited %d elements, want %d", visited, want)
		}
	}
	return s.checkState(o)
}

// checkState compares everything observable with the model and checks that
// slots outside the live range hold the zero value.
func (s *rbState[T]) checkState(o *rbOps[T]) string {
	r := s.r
	n := len(s.model)
	if r.Len() != n {
		return fmt.Sprintf("Len()=%d, model %d", r.Len(), n)
	}
	if r.IsEmpty() != (n == 0) {
		return fmt.Sprintf("IsEmpty()=%v with %d elements", r.IsEmpty(), n)
	}
	if r.IsFull() != (n == r.MaxLen()) {
		return fmt.Sprintf("IsFull()=%v, Len=%d MaxLen=%d", r.IsFull(), n, r.MaxLen())
	}
	if n > r.MaxLen() {
		return fmt.Sprintf("Len %d exceeds MaxLen %d", n, r.MaxLen())
	}
	i := 0
	bad := ""
	r.ForEach(func(p *T) bool {
		if i >= n || !o.eq(*p, s.model[i]) {
			bad = fmt.Sprintf("content differs from the model at position %d", i)
			return false
		}
		i++
		return true
	})
	if bad != "" {
		return bad
	}
	if i != n {
		return fmt.Sprintf("ForEach yields %d elements, model %d", i, n)
	}
	// slot hygiene: the live range is [head, head+n) modulo capacity
	c := len(r.elements)
	if r.head < 0 || r.head >= c || r.tail < 0 || r.tail >= c {
		return fmt.Sprintf("head/tail out of range: head=%d tail=%d cap=%d", r.head, r.tail, c)
	}
	for k := 0; k < c; k++ {
		live := (k-r.head+c)%c < n
		if !live && !o.isZero(r.elements[k]) {
			return fmt.Sprintf("slot %d outside the live range [head=%d,len=%d) retains %s", k, r.head, n, o.str(r.elements[k]))
		}
	}
	return ""
}

func rbInitial[T any](o *rbOps[T], capacity, head, fill int) (*rbState[T], string) {
	s := &rbState[T]{r: NewRingBuffer[T](capacity)}
	for i := 0; i < head; i++ {
		s.r.Push(o.mk(-1))
		s.r.Pop()
	}
	for i := 0; i < fill; i++ {
		v := o.mk(s.next)
		s.next++
		s.r.Push(v)
		s.model = append(s.model, v)
	}
	if s.r.head != head%len(s.r.elements) || len(s.r.elements) != max(capacity, RINGBUFFER_MIN) {
		return s, fmt.Sprintf("initial layout not as requested: head=%d cap=%d", s.r.head, len(s.r.elements))
	}
	return s, s.checkState(o)
}

func intPtrOps() *rbOps[*int] {
	return &rbOps[*int]{
		mk:     func(id int) *int { v := id; return &v },
		eq:     func(a, b *int) bool { return a == b },
		isZero: func(a *int) bool { return a == nil },
		mut:    func(p **int, id int) { **p = id + 1000000 },
		str: func(a *int) string {
			if a == nil {
				return "nil"
			}
			return fmt.Sprint(*a)
		},
	}
}

func segOps() *rbOps[segment] {
	return &rbOps[segment]{
		mk: func(id int) segment { return segment{sn: uint32(id), data: []byte{byte(id), byte(id >> 8)}} },
		eq: func(a, b segment) bool {
			return a.sn == b.sn && a.frg == b.frg && a.xmit == b.xmit && len(a.data) == len(b.data) && (len(a.data) == 0 || &a.data[0] == &b.data[0])
		},
		isZero: func(a segment) bool { return a.sn == 0 && a.data == nil && a.xmit == 0 && a.frg == 0 },
		mut:    func(p *segment, id int) { p.xmit = uint32(id); p.frg = uint8(id) },
		str:    func(a segment) string { return fmt.Sprintf("seg{sn=%d xmit=%d data=%v}", a.sn, a.xmit, a.data != nil) },
	}
}

func TestVerifC20(t *testing.T) {
	rec := newRec(t, "C20")
	defer rec.finish(t)
	env := rec.env
	o := intPtrOps()

	// ---- bounded-exhaustive part -----------------------------------------
	depth := env.pickN(5, 6)
	caps := []int{8, 9, 16, 17}
	type initSt struct{ c, head, fill int }
	var inits []initSt
	for _, c := range caps {
		offs := []int{0, 1, c / 2, c - 2, c - 1}
		if env.thorough() {
			offs = offs[:0]
			for h := 0; h < c; h++ {
				offs = append(offs, h)
			}
		}
		fills := []int{0, 1, c / 2, c - 2, c - 1}
		for _, h := range offs {
			for _, f := range fills {
				inits = append(inits, initSt{c, h, f})
			}
		}
	}
	var caseIdx int64
	for _, in := range inits {
		for first := 0; first < rbNumOps; first++ { // first op splits the work between shards
			idx := caseIdx
			caseIdx++
			if !env.mine(idx) {
				continue
			}
			desc := map[string]any{"part": "exhaustive", "case": idx, "cap": in.c, "head": in.head, "fill": in.fill, "first_op": rbOpNames[first], "depth": depth}
			rec.beginCase(desc)
			st, msg := rbInitial(o, in.c, in.head, in.fill)
			if msg != "" {
				rec.violation("C20 initial state: "+msg, msg, desc)
				continue
			}
			path := make([]int, 0, depth)
			var nodes, grown int64
			var dfs func(s *rbState[*int], d int) bool
			dfs = func(s *rbState[*int], d int) bool {
				lo, hi := 0, rbNumOps
				if d == 0 {
					lo, hi = first, first+1
				}
				for op := lo; op < hi; op++ {
					c := s.clone()
					path = append(path, op)
					nodes++
					capBefore := len(c.r.elements)
					if msg := c.apply(o, op, 1); msg != "" {
						names := make([]string, len(path))
						for i, p := range path {
							names[i] = rbOpNames[p]
						}
						d2 := map[string]any{"part": "exhaustive", "case": idx, "cap": in.c, "head": in.head, "fill": in.fill, "ops": names}
						rec.violation("C20 "+rbOpNames[op]+": queue model mismatch", msg, d2)
						path = path[:len(path)-1]
						return false
					}
					if len(c.r.elements) != capBefore {
						grown++
					}
					if d+1 < depth {
						if !dfs(c, d+1) {
							path = path[:len(path)-1]
							return false
						}
					}
					path = path[:len(path)-1]
				}
				return true
			}
			rec.guard(desc, func() { dfs(st, 0) })
			rec.eval(nodes)
			rec.count("exhaustive_op_sequences_prefixes", nodes)
			rec.count("exhaustive_growth_steps", grown)
			rec.count("exhaustive_initial_state_x_first_op", 1)
			rec.nontrivial(hashAny([]any{"ex", in.c, in.head, in.fill, first, depth}))
			rec.sample("exhaustive", 2, desc)
		}
	}
	rec.note("exhaustive_depth", depth)
	rec.note("exhaustive_initial_states", len(inits))

	// ---- random part: long sequences through the growth regimes ------------
	nseq := env.pickN(64, 640)
	for q := 0; q < nseq; q++ {
		idx := caseIdx
		caseIdx++
		if !env.mine(idx) {
			continue
		}
		rng := rec.seed(uint64(idx), 20)
		useSeg := q%2 == 1
		steps := 12000
		target := pick(rng, []int{20, 100, 600, 1100, 1300, 2600})
		desc := map[string]any{"part": "random", "case": idx, "elem": map[bool]string{false: "*int", true: "segment"}[useSeg], "steps": steps, "target_len": target}
		rec.beginCase(desc)
		var msg string
		var maxCap, growths int
		rec.guard(desc, func() {
			if useSeg {
				msg, maxCap, growths = rbRandom(segOps(), rng, steps, target)
			} else {
				msg, maxCap, growths = rbRandom(intPtrOps(), rng, steps, target)
			}
		})
		rec.eval(int64(steps))
		rec.count("random_ops", int64(steps))
		rec.count("random_growth_steps", int64(growths))
		rec.maxCount("random_max_capacity", int64(maxCap))
		if msg != "" {
			rec.violation("C20 random sequence: queue model mismatch", msg, desc)
		}
		rec.nontrivial(hashAny(desc))
		rec.sample("random", 2, desc)
	}
}

func rbRandom[T any](o *rbOps[T], rng *vrng, steps, target int) (string, int, int) {
	st, msg := rbInitial(o, pick(rng, []int{0, 8, 9, 16, 17, 64}), rng.intn(8), rng.intn(7))
	if msg != "" {
		return msg, 0, 0
	}
	growths, maxCap := 0, len(st.r.elements)
	growing := true
	for i := 0; i < steps; i++ {
		n := len(st.model)
		if n >= target {
			growing = false
		} else if n == 0 {
			growing = true
		}
		var op int
		x := rng.intn(100)
		pushBias := 30
		if growing {
			pushBias = 70
		}
		switch {
		case x < pushBias:
			op = rbPush
		case x < 78:
			op = rbPop
		case x < 82:
			op = rbPeek
		case x < 88:
			op = pick(rng, []int{rbDiscard0, rbDiscard1, rbDiscard2})
		case x < 89:
			if !growing {
				op = pick(rng, []int{rbDiscardLenM1, rbDiscardLen, rbDiscardLenP1, rbClear})
			} else {
				op = rbPeek
			}
		default:
			op = rbEachFull + rng.intn(6)
		}
		// full iteration is O(n): keep long rings affordable
		if op >= rbEachFull && n > 64 && rng.intn(8) != 0 {
			op = rbPush
		}
		capBefore := len(st.r.elements)
		var msg string
		if n > 64 && op < rbEachFull && rng.intn(16) != 0 {
			msg = st.applyCheap(o, op)
		} else {
			msg = st.apply(o, op, 1+rng.intn(max(1, n)))
		}
		if msg != "" {
			return fmt.Sprintf("step %d op %s: %s", i, rbOpNames[op], msg), maxCap, growths
		}
		if c := len(st.r.elements); c != capBefore {
			growths++
			if c > maxCap {
				maxCap = c
			}
		}
	}
	return st.checkState(o), maxCap, growths
}

// applyCheap applies op with only O(1) checks (used on long rings; the full
// state comparison still runs on a sample of the steps and at the end).
func (s *rbState[T]) applyCheap(o *rbOps[T], op int) string {
	if msg := s.applyNoState(o, op); msg != "" {
		return msg
	}
	if s.r.Len() != len(s.model) {
		return fmt.Sprintf("Len()=%d, model %d", s.r.Len(), len(s.model))
	}
	return ""
}

func (s *rbState[T]) applyNoState(o *rbOps[T], op int) string {
	r := s.r
	switch op {
	case rbPush:
		v := o.mk(s.next)
		s.next++
		r.Push(v)
		s.model = append(s.model, v)
	case rbPop:
		v, ok := r.Pop()
		if len(s.model) == 0 {
			if ok {
				return "Pop on empty returned ok"
			}
		} else {
			if !ok || !o.eq(v, s.model[0]) {
				return fmt.Sprintf("Pop returned (%s,%v), model head %s", o.str(v), ok, o.str(s.model[0]))
			}
			s.model = s.model[1:]
		}
	case rbPeek:
		p, ok := r.Peek()
		if (len(s.model) == 0) == ok {
			return "Peek ok flag wrong"
		}
		if ok && !o.eq(*p, s.model[0]) {
			return "Peek returned wrong element"
		}
	case rbDiscard0, rbDiscard1, rbDiscard2:
		n := op - rbDiscard0
		got := r.Discard(n)
		want := min(n, len(s.model))
		if got != want {
			return fmt.Sprintf("Discard(%d) returned %d, want %d", n, got, want)
		}
		s.model = s.model[want:]
	default:
		return s.apply(o, op, 1)
	}
	return ""
}
