//go:build verif

package kcp

// simsess: real UDPSession / Listener objects over simnet inside a synctest
// bubble, with the always-on monitors attached (wire decoder, MTU, window,
// pool sanitizer, leak check at shutdown).

import (
	"fmt"
	"net"
	"reflect"
	"regexp"
	"runtime"
	"strings"
	"sync"
	"sync/atomic"
	"testing"
	"testing/synctest"
	"time"
)

type sessCfg struct {
	Mtu        int  `json:"mtu"`
	SndWnd     int  `json:"sndwnd"`
	RcvWnd     int  `json:"rcvwnd"`
	NoDelay    int  `json:"nodelay"`
	Interval   int  `json:"interval"`
	Resend     int  `json:"resend"`
	NC         int  `json:"nc"`
	Stream     bool `json:"stream"`
	WriteDelay bool `json:"writedelay"`
	AckNoDelay bool `json:"acknodelay"`
	Retune     bool `json:"retune,omitempty"` // SetNoDelay(-1, ...) follows: "leave the mode as it is"
	RateLimit  int  `json:"ratelimit,omitempty"` // bytes/s for SetRateLimit; -1: SetRateLimit(0) ("disabled") is called; 0: never called
	Dup        int  `json:"dup,omitempty"`       // SetDUP: extra copies of every data datagram (deprecated knob, still there)
}

func (c sessCfg) minRTO() uint32 {
	if c.NoDelay != 0 {
		return IKCP_RTO_NDL
	}
	return IKCP_RTO_MIN
}

type linkCfg struct {
	Cipher  string `json:"cipher"` // "" = nil BlockCrypt
	D       int    `json:"fec_d"`
	P       int    `json:"fec_p"`
	UDPAddr bool   `json:"udp_addr"` // *net.UDPAddr endpoints (else string-compared addresses)
	Batch   bool   `json:"batch_io,omitempty"` // the library's recvmmsg/sendmmsg loops run over the in-memory transport (hook H5)
	// SrvFEC: the listener side uses (SD, SP) instead of (D, P) (C16: mismatch;
	// 0/0 = FEC disabled at that end)
	SrvFEC bool `json:"server_fec_differs,omitempty"`
	SD     int  `json:"server_fec_d,omitempty"`
	SP     int  `json:"server_fec_p,omitempty"`
}

func (l linkCfg) serverFEC() (int, int) {
	if l.SrvFEC {
		return l.SD, l.SP
	}
	return l.D, l.P
}

func randomSessCfg(rng *vrng) sessCfg {
	return sessCfg{
		Mtu:        pick(rng, []int{0, 0, 0, 200, 300, 576, 1000, 1400, 1500}),
		SndWnd:     pick(rng, []int{1, 2, 3, 8, 32, 128, 1024}),
		RcvWnd:     pick(rng, []int{1, 2, 3, 8, 32, 128, 1024}),
		NoDelay:    rng.intn(2),
		Interval:   pick(rng, []int{10, 20, 40, 100}),
		Resend:     pick(rng, []int{0, 1, 2}),
		NC:         rng.intn(2),
		Stream:     rng.chance(0.4),
		WriteDelay: rng.chance(0.3),
		AckNoDelay: rng.chance(0.3),
		Retune:     rng.chance(0.3),
		RateLimit:  pick(rng, []int{0, 0, 0, 0, 0, 0, 0, 0, 0, -1, 100_000, 1_000_000, 20_000_000}),
	}
}

var cipherNames = []string{"", "aes-128", "aes-192", "aes-256", "sm4", "twofish", "3des", "cast5", "blowfish", "tea", "xtea", "salsa20", "xor", "none", "aes-128-gcm", "aes-256-gcm"}

func cipherByName(name string) *cipherSpec {
	if name == "" {
		return nil
	}
	for _, s := range allCipherSpecs() {
		if s.name == name {
			sp := s
			return &sp
		}
	}
	panic("unknown cipher " + name)
}

// overheadOf returns the per-datagram bytes the session layer adds around the
// KCP packet for the link configuration.
func (l linkCfg) overhead() int {
	o := 0
	switch sp := cipherByName(l.Cipher); {
	case sp == nil:
	case sp.kind == "aead":
		o += 12 + 16
	default:
		o += 20
	}
	sd, sp := l.serverFEC()
	if (l.D > 0 && l.P > 0) || (sd > 0 && sp > 0) {
		o += 8
	}
	return o
}

func (c sessCfg) mtu() int {
	if c.Mtu == 0 {
		return IKCP_MTU_DEF
	}
	return min(c.Mtu, 1500)
}

// ---------------------------------------------------------------------------
// per-session monitor

type sessMon struct {
	seenSn       map[uint32]int64 // first transmission time per sn (guarded by s.mu: only touched inside flush)
	firstRetrans string
	flow    *wireFlow
	w       *sessWorld
	name    string
	s       *UDPSession
	mtuNow  atomic.Int64 // session MTU in force (as accepted by SetMtu)
	admits  atomic.Int64
	outputs atomic.Int64
	zeroAdv atomic.Int64
	armed   atomic.Bool
	expMinRTO atomic.Uint32 // minimum RTO the scenario's configuration asks for (0: the scenario retunes freely)
}

func (m *sessMon) admitted(k *KCP, newSegs int) {
	if newSegs <= 0 {
		return
	}
	m.admits.Add(int64(newSegs))
	limit := min(k.snd_wnd, k.rmt_wnd)
	if k.nocwnd == 0 {
		limit = min(limit, k.cwnd)
	}
	if out := int32(k.snd_nxt - k.snd_una); out > int32(limit) {
		m.w.viol("C04 new segment admitted beyond min(send window, peer window, congestion window)", "session %s: %d outstanding after admitting %d, snd_wnd=%d rmt_wnd=%d cwnd=%d nc=%d", m.name, out, newSegs, k.snd_wnd, k.rmt_wnd, k.cwnd, k.nocwnd)
	}
}

// attach wraps the core's output callback (runs inside flush, under s.mu).
func (m *sessMon) attach() {
	s := m.s
	s.mu.Lock()
	orig := s.kcp.output
	k := s.kcp
	s.kcp.output = func(buf []byte, size int) {
		m.outputs.Add(1)
		if size <= 0 || size > int(k.mtu) || size > len(buf) {
			m.w.viol("C10 core handed its output callback an empty or over-MTU packet", "session %s: size %d, core mtu %d", m.name, size, k.mtu)
		} else {
			free := 0
			if k.rcv_queue.Len() < int(k.rcv_wnd) {
				free = int(k.rcv_wnd) - k.rcv_queue.Len()
			}
			if segs, perr := parseKCP(buf[:size]); perr == "" {
				for _, sg := range segs {
					if int(sg.wnd) > free {
						m.w.viol("C04 advertised window larger than the free delivery-queue space", "session %s: cmd=%d sn=%d advertises wnd=%d, delivery queue has %d of %d slots free", m.name, sg.cmd, sg.sn, sg.wnd, free, k.rcv_wnd)
					}
					if sg.wnd == 0 {
						m.zeroAdv.Add(1)
					}
					if sg.cmd == IKCP_CMD_PUSH {
						if m.seenSn == nil {
							m.seenSn = map[uint32]int64{}
						}
						if first, dup := m.seenSn[sg.sn]; dup {
							if m.firstRetrans == "" {
								m.firstRetrans = fmt.Sprintf("%s re-sent sn %d at %d ms (first sent at %d ms, rx_rto %d, srtt %d, interval %d)", m.name, sg.sn, m.w.hub.nowMs(), first, k.rx_rto, k.rx_srtt, k.interval)
							}
						} else {
							m.seenSn[sg.sn] = m.w.hub.nowMs()
						}
					}
				}
			}
		}
		orig(buf, size)
	}
	sessKCPs.Store(k, m)
	s.mu.Unlock()
}

// occupancy checks the C04 bounds under the session lock.
func (m *sessMon) occupancy() {
	s := m.s
	s.mu.Lock()
	k := s.kcp
	q, b, out, sw, rw := k.rcv_queue.Len(), k.rcv_buf.Len(), int32(k.snd_nxt-k.snd_una), k.snd_wnd, k.rcv_wnd
	rto, minrto := k.rx_rto, k.rx_minrto
	inWindow := true
	if !m.armed.Load() {
		for i := range k.rcv_buf.segments {
			if _itimediff(k.rcv_buf.segments[i].sn, k.rcv_nxt+k.rcv_wnd) >= 0 {
				inWindow = false // accepted under the default window, before the configured one
			}
		}
	}
	s.mu.Unlock()
	if !m.armed.Load() {
		// an accepted session receives its first datagram with the default
		// windows; the bounds apply once the configured windows are in force
		// ("window sizes set before traffic starts")
		if q <= int(rw) && inWindow && out <= int32(sw) {
			m.armed.Store(true)
		}
		return
	}
	if q > int(rw) {
		m.w.viol("C04 delivery queue holds more than one receive window", "session %s: %d queued, rcv_wnd=%d", m.name, q, rw)
	}
	if b > int(rw) {
		m.w.viol("C04 out-of-order buffer holds more than one receive window", "session %s: %d buffered, rcv_wnd=%d", m.name, b, rw)
	}
	if out > int32(sw) || out < 0 {
		m.w.viol("C04 more than a send window of segments outstanding", "session %s: %d, snd_wnd=%d", m.name, out, sw)
	}
	if exp := m.expMinRTO.Load(); rto < minrto || rto < exp || rto > IKCP_RTO_MAX {
		m.w.viol("C18 retransmission timeout outside [minimum, 60s]", "session %s: rx_rto=%d, minimum configured %d (0: not fixed by the scenario), core's own minimum %d", m.name, rto, exp, minrto)
	}
	m.w.rec.count("session_occupancy_evaluations", 1)
}

// ---------------------------------------------------------------------------
// world

type sessWorld struct {
	onObserved atomic.Pointer[func(from, to net.Addr, data []byte, kind string)] // after the wire decoder classified a datagram
	rec  *vrec
	desc any
	hub  *simHub
	link linkCfg
	key  []byte
	t    *testing.T

	mu           sync.Mutex
	flows        map[string]*wireFlow
	mons         []*sessMon
	conns        []*simConn
	sessions     []*UDPSession
	lconn        *simConn
	listener     *Listener
	laddr        net.Addr
	nviol        atomic.Int64
	bubbleID     string
	snmp0        *Snmp
	cleanUntilMs int64
}

func (w *sessWorld) viol(key, format string, args ...any) {
	w.nviol.Add(1)
	w.rec.violation(key, fmt.Sprintf("t=%dms ", w.hub.nowMs())+fmt.Sprintf(format, args...), w.desc)
}

var bubbleRe = regexp.MustCompile(`synctest bubble (\d+)`)

func currentBubble() string {
	buf := make([]byte, 512)
	n := runtime.Stack(buf, false)
	if m := bubbleRe.FindSubmatch(buf[:n]); m != nil {
		return string(m[1])
	}
	return ""
}

func newSessWorld(t *testing.T, rec *vrec, desc any, link linkCfg, keySeed uint64, fate netFate) *sessWorld {
	installHooks()
	schedBubbleMode.Store(true)
	sanEnabled.Store(true)
	setCurrent(rec, desc)
	w := &sessWorld{rec: rec, desc: desc, link: link, t: t, flows: map[string]*wireFlow{}}
	w.bubbleID = currentBubble()
	w.hub = newSimHub(fate)
	w.hub.batch = link.Batch
	if sp := cipherByName(link.Cipher); sp != nil {
		w.key = newRng(keySeed, 0x6b6579).bytes(sp.keyLen)
	}
	w.hub.tap = func(from, to net.Addr, data []byte, nowMs int64) {
		w.mu.Lock()
		f := w.flows[from.String()+">"+to.String()]
		w.mu.Unlock()
		if f != nil {
			f.observe(data, nowMs)
			if cb := w.onObserved.Load(); cb != nil {
				(*cb)(from, to, data, f.kindOfLast())
			}
		}
	}
	w.snmp0 = DefaultSnmp.Copy()
	return w
}

func (w *sessWorld) block() BlockCrypt {
	sp := cipherByName(w.link.Cipher)
	if sp == nil {
		return nil
	}
	b, err := sp.mk(w.key)
	if err != nil {
		panic(err)
	}
	return b
}

func (w *sessWorld) addr(host byte, port int) net.Addr {
	if w.link.UDPAddr {
		return simUDPAddr(host, port)
	}
	return strAddr(fmt.Sprintf("sim-%d:%d", host, port))
}

func (w *sessWorld) listen() *Listener {
	w.laddr = w.addr(1, 4000)
	w.lconn = w.hub.listen(w.laddr)
	w.conns = append(w.conns, w.lconn)
	sd, sp := w.link.serverFEC()
	l, err := ServeConn(w.block(), sd, sp, w.lconn)
	if err != nil {
		panic(err)
	}
	w.listener = l
	return l
}

// dial creates a client endpoint and a dialled session towards the listener.
func (w *sessWorld) dial(host byte, conv uint32) (*UDPSession, *simConn) {
	ca := w.addr(host, 5000+int(host))
	cc := w.hub.listen(ca)
	w.mu.Lock()
	w.conns = append(w.conns, cc)
	w.mu.Unlock()
	s, err := NewConn3(conv, w.laddr, w.block(), w.link.D, w.link.P, cc)
	if err != nil {
		panic(err)
	}
	w.mu.Lock()
	w.sessions = append(w.sessions, s)
	w.mu.Unlock()
	return s, cc
}

// watch attaches the monitors to a session: output wrapper, H3, wire flow.
func (w *sessWorld) watch(s *UDPSession, name string, from, to net.Addr, cfg sessCfg, stream uint64) *sessMon {
	m := &sessMon{w: w, name: name, s: s}
	m.mtuNow.Store(int64(cfg.mtu()))
	m.attach()
	fd, fp := w.link.D, w.link.P
	if s.l != nil {
		fd, fp = w.link.serverFEC()
	}
	wc := wireCfg{name: name, spec: cipherByName(w.link.Cipher), key: w.key, fec: fd > 0 && fp > 0, d: fd, p: fp,
		conv: s.GetConv(), mtu: func() int { return int(m.mtuNow.Load()) }, stream: stream, cleanUntilMs: w.cleanUntilMs, dup: cfg.Dup}
	f := newWireFlow(wc, func(key, detail string) {
		w.nviol.Add(1)
		w.rec.violation(key, fmt.Sprintf("t=%dms ", w.hub.nowMs())+detail, w.desc)
	})
	m.flow = f
	w.mu.Lock()
	w.flows[from.String()+">"+to.String()] = f
	w.mons = append(w.mons, m)
	w.mu.Unlock()
	return m
}

func applySessCfg(s *UDPSession, c sessCfg) bool {
	ok := true
	if c.Mtu != 0 {
		ok = s.SetMtu(c.Mtu)
	}
	s.SetWindowSize(c.SndWnd, c.RcvWnd)
	s.SetNoDelay(c.NoDelay, c.Interval, c.Resend, c.NC)
	if c.Retune {
		s.SetNoDelay(-1, c.Interval, c.Resend, c.NC)
	}
	switch {
	case c.RateLimit < 0:
		s.SetRateLimit(0)
	case c.RateLimit > 0:
		s.SetRateLimit(uint32(c.RateLimit))
	}
	if c.Dup > 0 {
		s.SetDUP(c.Dup)
	}
	s.SetStreamMode(c.Stream)
	s.SetWriteDelay(c.WriteDelay)
	s.SetACKNoDelay(c.AckNoDelay)
	return ok
}

// shutdown closes everything in the given order and then checks that no
// library goroutine and no scheduled callback is left in the bubble.
// order: permutation of {"sessions","listener","transports"}.
func (w *sessWorld) shutdown(order []string, leakCheck bool) {
	if len(order) == 0 {
		order = []string{"sessions", "listener", "transports"}
	}
	for _, what := range order {
		switch what {
		case "sessions":
			w.mu.Lock()
			ss := append([]*UDPSession(nil), w.sessions...)
			w.mu.Unlock()
			for _, s := range ss {
				s.Close()
			}
			if w.listener != nil {
				w.listener.sessionLock.RLock()
				var acc []*UDPSession
				for _, s := range w.listener.sessions {
					acc = append(acc, s)
				}
				w.listener.sessionLock.RUnlock()
				for _, s := range acc {
					s.Close()
				}
			}
		case "own-sessions":
			// only the sessions the application holds (dialled or accepted): what the
			// listener created and nobody accepted is the listener's to release
			w.mu.Lock()
			ss := append([]*UDPSession(nil), w.sessions...)
			w.mu.Unlock()
			for _, s := range ss {
				s.Close()
			}
		case "listener":
			if w.listener != nil {
				w.listener.Close()
			}
		case "transports":
			w.mu.Lock()
			cs := append([]*simConn(nil), w.conns...)
			w.mu.Unlock()
			for _, c := range cs {
				c.Close()
			}
		}
	}
	// whatever the order, everything is closed now
	if leakCheck {
		time.Sleep(10 * time.Minute)
		synctest.Wait()
		w.leakCheck()
	}
	w.reap()
	w.hub.stop()
	for _, m := range w.mons {
		sessKCPs.Delete(m.s.kcp)
	}
	w.mu.Lock()
	for _, f := range w.flows {
		f.tally(w.rec)
	}
	w.mu.Unlock()
	w.mu.Lock()
	for _, c := range w.conns {
		w.rec.count("batch_io_write_calls", c.nBatchW.Load())
		w.rec.count("batch_io_partial_writes", c.nBatchPartial.Load())
		w.rec.count("batch_io_read_calls", c.nBatchR.Load())
		w.rec.count("batch_io_reads_of_several_datagrams", c.nBatchRMulti.Load())
	}
	w.mu.Unlock()
	w.rec.count("net_datagrams_sent", w.hub.nSent.Load())
	w.rec.count("net_datagrams_dropped", w.hub.nDropped.Load())
	w.rec.count("net_datagram_extra_copies", w.hub.nDup.Load())
	sanReset()
	sanTally(w.rec)
}

// reap closes sessions the listener created that the scenario never got hold
// of (after the leak check has reported them), so that the bubble can end.
func (w *sessWorld) reap() {
	if w.listener == nil {
		return
	}
	for i := 0; i < 3; i++ {
		n := 0
		for {
			select {
			case s := <-w.listener.chAccepts:
				s.Close()
				n++
				continue
			default:
			}
			break
		}
		w.listener.sessionLock.RLock()
		var acc []*UDPSession
		for _, s := range w.listener.sessions {
			acc = append(acc, s)
		}
		w.listener.sessionLock.RUnlock()
		for _, s := range acc {
			s.Close()
			n++
		}
		if n == 0 {
			return
		}
		time.Sleep(time.Second)
	}
}

var goroutineHdr = regexp.MustCompile(`(?m)^goroutine (\d+) \[([^\]]*)\]:`)

// leakCheck counts goroutines of this bubble that still run library code and
// callbacks still scheduled.
func (w *sessWorld) leakCheck() {
	buf := make([]byte, 4<<20)
	n := runtime.Stack(buf, true)
	stacks := strings.Split(string(buf[:n]), "\n\n")
	tag := "synctest bubble " + w.bubbleID
	for _, st := range stacks {
		hdr := goroutineHdr.FindStringSubmatch(st)
		if hdr == nil || !strings.Contains(hdr[2], tag) {
			continue
		}
		// a library goroutine: its entry function (last frame / created by) is in
		// a library file
		lines := strings.Split(st, "\n")
		lib := ""
		for i := len(lines) - 1; i >= 1; i-- {
			ln := strings.TrimSpace(lines[i])
			if strings.HasPrefix(ln, libDir()) && !strings.Contains(ln, "zzverif_") {
				// function name is the previous line
				if i > 0 {
					lib = strings.TrimSpace(lines[i-1])
				}
				break
			}
			if strings.HasPrefix(ln, libDir()+"zzverif_") {
				break // harness goroutine
			}
		}
		if lib == "" {
			continue
		}
		fn := lib
		if j := strings.Index(fn, "("); j > 0 {
			fn = fn[:j]
		}
		fn = strings.TrimPrefix(fn, "created by ")
		if j := strings.Index(fn, " in goroutine"); j > 0 {
			fn = fn[:j]
		}
		fn = strings.TrimPrefix(fn, "github.com/xtaci/kcp-go/v5.")
		w.viol("C15 library goroutine still alive 10 virtual minutes after everything was closed: "+fn, "%s", st)
	}
	w.rec.count("leak_checks", 1)
	// ownership of everything the (closed) sessions still reference
	w.mu.Lock()
	all := append([]*UDPSession(nil), w.sessions...)
	w.mu.Unlock()
	for _, m := range w.mons {
		all = append(all, m.s)
	}
	seen := map[*UDPSession]bool{}
	for _, s := range all {
		if s == nil || seen[s] {
			continue
		}
		seen[s] = true
		if msg := sanRefCheck(s); msg != "" {
			w.viol("C15 session references a pooled buffer after it was recycled", "%s", msg)
		}
		w.rec.count("session_buffer_ownership_checks", 1)
	}
	if p := schedPending.Load(); p != 0 {
		w.viol("C15 scheduled callback still pending after everything was closed", "%d callbacks pending 10 virtual minutes after Close", p)
	}
}

// ---------------------------------------------------------------------------
// application transfers with the content oracle

type xfer struct {
	w       *sessWorld
	name    string
	from    *UDPSession
	to      *UDPSession
	stream  uint64
	total   int
	wsizes  []int // cyclic write sizes
	rsizes  []int // cyclic read-buffer sizes
	vec     bool  // use WriteBuffers with several slices
	msgMode bool
	mss     int

	started      atomic.Uint64 // bytes handed to Write calls that have started
	written      atomic.Uint64 // bytes of Write calls that returned
	read         atomic.Uint64
	reads        atomic.Int64
	chunks       []int // message lengths as the peer must see them (message mode)
	chunkMu      sync.Mutex
	werr, rerr   error
	doneW, doneR chan struct{}
	pauseAt      int // reader pauses once after this many bytes
	pauseFor     time.Duration
	wPauseAt     int // writer pauses once after this many bytes
	wPauseFor    time.Duration
	abort        chan struct{} // closed to cut a scripted reader pause short
	sndWnd       int           // >0: check the Write admission bound against this send window
}

func (x *xfer) start() {
	x.doneW, x.doneR = make(chan struct{}), make(chan struct{})
	if x.abort == nil {
		x.abort = make(chan struct{})
	}
	go x.writer()
	go x.reader()
}

func (x *xfer) writer() {
	defer close(x.doneW)
	off := 0
	i := 0
	wpaused := false
	for off < x.total {
		if x.wPauseAt > 0 && !wpaused && off >= x.wPauseAt {
			wpaused = true
			time.Sleep(x.wPauseFor)
		}
		sz := x.wsizes[i%len(x.wsizes)]
		i++
		if sz > x.total-off {
			sz = x.total - off
		}
		buf := make([]byte, sz)
		fillContent(x.stream, uint64(off), buf)
		useVec := x.vec && sz >= 3
		var slices [][]byte
		if useVec {
			a, b := sz/3, 2*sz/3
			slices = [][]byte{buf[:a], buf[a:b], buf[b:]}
		} else {
			slices = [][]byte{buf}
		}
		if x.msgMode {
			// every slice handed to the session is cut into <=MSS messages
			x.chunkMu.Lock()
			for _, sl := range slices {
				for rem := len(sl); rem > 0; rem -= x.mss {
					x.chunks = append(x.chunks, min(rem, x.mss))
				}
			}
			x.chunkMu.Unlock()
		}
		x.started.Add(uint64(sz))
		var n int
		var err error
		if useVec {
			n, err = x.from.WriteBuffers(slices)
		} else {
			n, err = x.from.Write(buf)
		}
		if err != nil {
			x.werr = err
			return
		}
		if n != sz {
			x.w.viol("C01 Write returned a short count without error", "%s: Write(%d) = %d", x.name, sz, n)
		}
		if x.sndWnd > 0 && x.mss > 0 {
			// a Write is admitted only while fewer than a send window of segments
			// are pending: afterwards at most snd_wnd-1 plus its own segments
			segs := 0
			for _, sl := range slices {
				segs += (len(sl) + x.mss - 1) / x.mss
			}
			x.from.mu.Lock()
			ws := x.from.kcp.WaitSnd()
			x.from.mu.Unlock()
			if ws > x.sndWnd-1+segs {
				x.w.viol("C04 Write admitted although a send window of segments was already pending", "%s: after Write(%d bytes, %d segments) WaitSnd=%d, snd_wnd=%d", x.name, sz, segs, ws, x.sndWnd)
			}
			x.w.rec.count("session_write_admission_checks", 1)
		}
		x.written.Add(uint64(n))
		off += sz
	}
}

func (x *xfer) reader() {
	defer close(x.doneR)
	var off uint64
	i := 0
	msg := 0
	paused := false
	for off < uint64(x.total) {
		sz := x.rsizes[i%len(x.rsizes)]
		i++
		if x.pauseAt > 0 && !paused && off >= uint64(x.pauseAt) {
			paused = true
			select {
			case <-time.After(x.pauseFor):
			case <-x.abort:
			}
		}
		buf := make([]byte, sz)
		n, err := x.to.Read(buf)
		if err != nil {
			x.rerr = err
			return
		}
		x.reads.Add(1)
		if n == 0 {
			x.w.viol("C01 Read returned 0 bytes without error", "%s", x.name)
			return
		}
		if off+uint64(n) > x.started.Load() {
			x.w.viol("C01 reader received bytes the peer's writer never had accepted", "%s: offset %d + %d > %d handed to Write", x.name, off, n, x.started.Load())
		}
		if k := checkContent(x.stream, off, buf[:n]); k >= 0 {
			what := ""
			if isPoison(buf[k:n]) {
				what = " (pool-sanitizer poison: a recycled buffer reached the reader)"
			}
			x.w.viol("C01 reader received bytes that are not the next bytes written", "%s: %d bytes at stream offset %d differ at byte %d (lost, duplicated, reordered or altered data)%s", x.name, n, off, k, what)
			return
		}
		if x.msgMode && allAtLeast(x.rsizes, x.mss) {
			x.chunkMu.Lock()
			if msg >= len(x.chunks) {
				x.w.viol("C01 reader received a message that was never sent", "%s: message #%d", x.name, msg)
			} else if x.chunks[msg] != n {
				x.w.viol("C01 message boundary not preserved", "%s: message #%d returned %d bytes, sent %d", x.name, msg, n, x.chunks[msg])
			}
			x.chunkMu.Unlock()
			msg++
		}
		off += uint64(n)
		x.read.Store(off)
	}
}

func allAtLeast(xs []int, v int) bool {
	for _, x := range xs {
		if x < v {
			return false
		}
	}
	return true
}

// waitAll waits for the transfers or for the virtual-time limit; returns true
// when every transfer finished without error.
func waitAll(limit time.Duration, xs ...*xfer) bool {
	done := make(chan struct{})
	go func() {
		for _, x := range xs {
			<-x.doneW
			<-x.doneR
		}
		close(done)
	}()
	t := time.NewTimer(limit)
	defer t.Stop()
	select {
	case <-done:
	case <-t.C:
		return false
	}
	for _, x := range xs {
		if x.werr != nil || x.rerr != nil || x.read.Load() != uint64(x.total) {
			return false
		}
	}
	return true
}

func (x *xfer) progress() string {
	// werr/rerr are only stable once the goroutines are done
	we, re := "?", "?"
	select {
	case <-x.doneW:
		we = fmt.Sprint(x.werr)
	default:
	}
	select {
	case <-x.doneR:
		re = fmt.Sprint(x.rerr)
	default:
	}
	return fmt.Sprintf("[%s written=%d/%d read=%d werr=%s rerr=%s]", x.name, x.written.Load(), x.total, x.read.Load(), we, re)
}

func sessProgress(s *UDPSession) string {
	s.mu.Lock()
	defer s.mu.Unlock()
	k := s.kcp
	return fmt.Sprintf("waitsnd=%d snd_una=%d snd_nxt=%d rcv_nxt=%d rcvq=%d rcvbuf=%d rmt_wnd=%d cwnd=%d rto=%d probe_wait=%d", k.WaitSnd(), k.snd_una, k.snd_nxt, k.rcv_nxt, k.rcv_queue.Len(), k.rcv_buf.Len(), k.rmt_wnd, k.cwnd, k.rx_rto, k.probe_wait)
}

// ---------------------------------------------------------------------------
// the standard two-way transfer scenario

type sessScenario struct {
	Case       int64      `json:"case"`
	Part       string     `json:"part"`
	Link       linkCfg    `json:"link"`
	CfgC       sessCfg    `json:"client"`
	CfgS       sessCfg    `json:"server"`
	Net        netProfile `json:"net"`
	BytesCS    int        `json:"bytes_client_to_server"`
	BytesSC    int        `json:"bytes_server_to_client"`
	WSizes     []int      `json:"write_sizes"`
	RSizes     []int      `json:"read_sizes"`
	Vec        bool       `json:"writebuffers"`
	Clock      uint32     `json:"clock_offset"`
	LimitMs    int64      `json:"limit_ms"`
	CloseOrder []string   `json:"close_order,omitempty"`
	PauseAt    int        `json:"reader_pause_after,omitempty"` // server-side reader pauses once after this many bytes
	PauseMs    int        `json:"reader_pause_ms,omitempty"`
	TxFaults   bool       `json:"-"` // the sender's socket swallows datagrams after FEC encoding: the wire need not show every segment (parity rebuilt them)
	NoMsgCheck bool       `json:"-"`                            // MSS changes during the run: message lengths are not modelled
	WPauseAt   int        `json:"writer_pause_after,omitempty"` // both writers pause once (client after this many bytes, server proportionally)
	WPauseMs   int        `json:"writer_pause_ms,omitempty"`
}

func genSessScenario(rng *vrng, idx int64, part string) sessScenario {
	sc := sessScenario{Case: idx, Part: part}
	sc.Link.Cipher = pick(rng, cipherNames)
	switch rng.intn(4) {
	case 0:
	case 1:
		sc.Link.D, sc.Link.P = rng.between(1, 4), rng.between(1, 3)
	default:
		sc.Link.D, sc.Link.P = pick(rng, []int{2, 3, 5, 10}), pick(rng, []int{1, 2, 3})
	}
	sc.Link.UDPAddr = rng.chance(0.5)
	sc.Link.Batch = rng.chance(0.4)
	sc.CfgC, sc.CfgS = randomSessCfg(rng), randomSessCfg(rng)
	sc.CfgS.Stream = sc.CfgC.Stream
	// the MTU must leave room for the headers
	for _, c := range []*sessCfg{&sc.CfgC, &sc.CfgS} {
		if c.Mtu != 0 && c.Mtu < sc.Link.overhead()+IKCP_OVERHEAD+30 {
			c.Mtu = 0
		}
	}
	healAt := rng.between(500, 15000)
	sc.Net = randomProfile(rng, healAt)
	for _, o := range sc.Net.Outages {
		if o[1] > 120000 {
			o[1] = o[0] + 120000
		}
		if o[1]+100 > sc.Net.HealAt {
			sc.Net.HealAt = o[1] + 100
		}
	}
	segs := rng.between(10, 250)
	if min(sc.CfgC.SndWnd, sc.CfgS.RcvWnd) <= 3 || min(sc.CfgS.SndWnd, sc.CfgC.RcvWnd) <= 3 {
		segs = min(segs, 80)
	}
	mssC := sc.CfgC.mtu() - sc.Link.overhead() - IKCP_OVERHEAD
	sc.BytesCS = segs * mssC * rng.between(30, 100) / 100
	sc.BytesSC = sc.BytesCS / pick(rng, []int{1, 2, 10})
	if rng.chance(0.2) {
		sc.BytesSC = 0
	}
	switch rng.intn(5) {
	case 0:
		sc.WSizes = []int{1, 2, 3, 5, 8}
		sc.BytesCS = min(sc.BytesCS, 3000)
		sc.BytesSC = min(sc.BytesSC, 3000)
	case 1:
		sc.WSizes = []int{mssC - 1, mssC, mssC + 1, 2 * mssC, 2*mssC + 1}
	case 2:
		sc.WSizes = []int{rng.between(mssC, 20*mssC)}
	default:
		sc.WSizes = []int{rng.between(1, 100), rng.between(100, 3*mssC), rng.between(1, 3*mssC), 1}
	}
	switch rng.intn(4) {
	case 0:
		sc.RSizes = []int{1, 2, 3, 7, 64, 2000, 65536}
	case 1:
		sc.RSizes = []int{65536}
	case 2:
		sc.RSizes = []int{rng.between(1, 100), rng.between(100, 3000)}
	default:
		sc.RSizes = []int{1500, 2000, 4096}
	}
	sc.Vec = rng.chance(0.3)
	sc.LimitMs = int64(sc.Net.HealAt) + 4*3600*1000
	return sc
}

type sessResult struct {
	completed        bool
	w                *sessWorld
	xs               []*xfer
	client           *UDPSession
	server           *UDPSession
	fecRecovered     uint64
	maxRunC, maxRunS int // longest uninterrupted run of FEC ids emitted by client / server in the clean phase
	nontrivial       bool
	endMs            int64
}

// runSessScenario must be called inside a fresh bubble.
type sessHooks struct {
	pre  func(w *sessWorld, client *UDPSession)         // before any traffic
	post func(w *sessWorld, client, server *UDPSession) // both sessions up, transfers started
	end  func(w *sessWorld, client, server *UDPSession) // transfers finished (or limit hit), before Close
}

func runSessScenario(t *testing.T, rec *vrec, sc *sessScenario, rng *vrng, hooks *sessHooks) sessResult {
	if hooks == nil {
		hooks = &sessHooks{}
	}
	netRng := newRng(rng.u64())
	pf := sc.Net.fate(netRng)
	laddrS := ""
	fate := func(from, to string, nth int, now int64, data []byte) []int {
		dir := 0
		if from == laddrS {
			dir = 1
		}
		return pf(dir, nth, now, data)
	}
	w := newSessWorld(t, rec, sc, sc.Link, uint64(sc.Case), fate)
	w.cleanUntilMs = int64(sc.Net.LossyFrom)
	refTime = time.Now().Add(-time.Duration(sc.Clock) * time.Millisecond)
	yieldMode.Store(1)
	l := w.listen()
	laddrS = w.laddr.String()
	conv := uint32(0x1000 + sc.Case&0xffff)
	client, cconn := w.dial(2, conv)
	applySessCfg(client, sc.CfgC)
	streamCS, streamSC := uint64(0xC000)+uint64(sc.Case&0xfff), uint64(0xD000)+uint64(sc.Case&0xfff)
	w.watch(client, "client", cconn.addr, w.laddr, sc.CfgC, streamCS).expMinRTO.Store(sc.CfgC.minRTO())
	res := sessResult{w: w, client: client}
	if hooks.pre != nil {
		hooks.pre(w, client)
	}

	client.mu.Lock()
	mssC := int(client.kcp.mss)
	client.mu.Unlock()
	x1 := &xfer{w: w, name: "client->server", from: client, stream: streamCS, total: sc.BytesCS, wsizes: sc.WSizes, rsizes: sc.RSizes, vec: sc.Vec, msgMode: !sc.CfgC.Stream && !sc.NoMsgCheck, mss: mssC,
		pauseAt: sc.PauseAt, pauseFor: time.Duration(sc.PauseMs) * time.Millisecond,
		wPauseAt: sc.WPauseAt, wPauseFor: time.Duration(sc.WPauseMs) * time.Millisecond, sndWnd: sndWndFor(sc, sc.CfgC)}
	// the first datagram creates the server session; Accept it, configure it
	x1.doneW, x1.doneR, x1.abort = make(chan struct{}), make(chan struct{}), make(chan struct{})
	go x1.writer()
	l.SetReadDeadline(time.Now().Add(time.Duration(sc.Net.HealAt)*time.Millisecond + 10*time.Minute))
	server, err := l.AcceptKCP()
	if err != nil {
		w.viol("C02 connection was never accepted although the network healed", "Accept: %v; client %s", err, sessProgress(client))
		client.Close()
		<-x1.doneW
		close(x1.doneR)
		w.shutdown(sc.CloseOrder, false)
		return res
	}
	res.server = server
	applySessCfg(server, sc.CfgS)
	w.watch(server, "server", w.laddr, cconn.addr, sc.CfgS, streamSC).expMinRTO.Store(sc.CfgS.minRTO())
	x1.to = server
	go x1.reader()
	server.mu.Lock()
	mssS := int(server.kcp.mss)
	server.mu.Unlock()
	x2 := &xfer{w: w, name: "server->client", from: server, to: client, stream: streamSC, total: sc.BytesSC, wsizes: sc.WSizes, rsizes: sc.RSizes, vec: sc.Vec, msgMode: !sc.CfgS.Stream && !sc.NoMsgCheck, mss: mssS,
		wPauseAt: sc.WPauseAt, wPauseFor: time.Duration(sc.WPauseMs) * time.Millisecond, sndWnd: sndWndFor(sc, sc.CfgS)}
	x2.start()
	res.xs = []*xfer{x1, x2}
	if hooks.post != nil {
		hooks.post(w, client, server)
	}
	// periodic occupancy monitor
	stopMon := make(chan struct{})
	go func() {
		tk := time.NewTicker(37 * time.Millisecond)
		defer tk.Stop()
		for {
			select {
			case <-tk.C:
				for _, m := range w.mons {
					m.occupancy()
				}
			case <-stopMon:
				return
			}
		}
	}()
	res.completed = waitAll(time.Duration(sc.LimitMs)*time.Millisecond, x1, x2)
	res.endMs = w.hub.nowMs()
	if res.completed {
		// backlog must drain too
		deadline := time.Now().Add(10 * time.Minute)
		for time.Now().Before(deadline) {
			client.mu.Lock()
			a := client.kcp.WaitSnd()
			client.mu.Unlock()
			server.mu.Lock()
			b := server.kcp.WaitSnd()
			server.mu.Unlock()
			if a == 0 && b == 0 {
				break
			}
			time.Sleep(50 * time.Millisecond)
		}
		client.mu.Lock()
		a := client.kcp.WaitSnd()
		client.mu.Unlock()
		server.mu.Lock()
		b := server.kcp.WaitSnd()
		server.mu.Unlock()
		if a != 0 || b != 0 {
			w.viol("C02 sender's backlog did not return to zero although everything was delivered", "10 virtual minutes after the last byte was read: client %s; server %s", sessProgress(client), sessProgress(server))
		}
		w.rec.count("session_backlog_drain_checks", 1)
	}
	close(stopMon)
	if hooks.end != nil {
		hooks.end(w, client, server)
	}
	snmp := DefaultSnmp.Copy()
	res.fecRecovered = snmp.FECRecovered - w.snmp0.FECRecovered
	res.nontrivial = w.hub.nDropped.Load() > 0 && x1.reads.Load()+x2.reads.Load() >= 10
	// wire-level end checks before the flows are torn down
	w.mu.Lock()
	fc := w.flows[cconn.addr.String()+">"+w.laddr.String()]
	fs := w.flows[w.laddr.String()+">"+cconn.addr.String()]
	w.mu.Unlock()
	if fc != nil {
		fc.finish(x1.written.Load(), res.completed && !sc.TxFaults)
		res.maxRunC = fc.longestRun()
	}
	if fs != nil {
		fs.finish(x2.written.Load(), res.completed && !sc.TxFaults)
		res.maxRunS = fs.longestRun()
	}
	client.Close()
	server.Close()
	<-x1.doneW
	<-x1.doneR
	<-x2.doneW
	<-x2.doneR
	w.shutdown(sc.CloseOrder, true)
	yieldMode.Store(0)
	return res
}

func (r sessResult) tally(rec *vrec) {
	rec.count("session_scenarios", 1)
	if r.completed {
		rec.count("session_scenarios_completed", 1)
	}
	for _, x := range r.xs {
		rec.count("session_read_calls_checked", x.reads.Load())
		rec.count("session_bytes_read_checked", int64(x.read.Load()))
	}
	rec.count("session_fec_recovered_packets", int64(r.fecRecovered))
	for _, m := range r.w.mons {
		rec.count("session_segments_admitted_checked_at_H3", m.admits.Load())
		rec.count("session_core_outputs_checked", m.outputs.Load())
	}
}

func sessBrief(sc *sessScenario) map[string]any {
	return map[string]any{"case": sc.Case, "part": sc.Part, "cipher": sc.Link.Cipher, "fec": [2]int{sc.Link.D, sc.Link.P}, "net": sc.Net.Name,
		"loss": fmt.Sprintf("%.2f", sc.Net.Loss), "stream": sc.CfgC.Stream, "mtu": [2]int{sc.CfgC.Mtu, sc.CfgS.Mtu}, "wnd_c": [2]int{sc.CfgC.SndWnd, sc.CfgC.RcvWnd}, "wnd_s": [2]int{sc.CfgS.SndWnd, sc.CfgS.RcvWnd},
		"bytes": [2]int{sc.BytesCS, sc.BytesSC}, "wsizes": sc.WSizes, "rsizes": sc.RSizes}
}

// sndWndFor: the send window the Write admission bound is checked against
// (0: not checked, e.g. when the MSS changes during the run).
func sndWndFor(sc *sessScenario, c sessCfg) int {
	if sc.NoMsgCheck {
		return 0
	}
	return c.SndWnd
}

var libDirOnce sync.Once
var libDirVal string

// libDir is the directory the library was compiled from (normally "/repo/").
func libDir() string {
	libDirOnce.Do(func() {
		f := runtime.FuncForPC(reflect.ValueOf(NewKCP).Pointer())
		file, _ := f.FileLine(f.Entry())
		if i := strings.LastIndex(file, "/"); i >= 0 {
			libDirVal = file[:i+1]
		} else {
			libDirVal = "/repo/"
		}
	})
	return libDirVal
}
